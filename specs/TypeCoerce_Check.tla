------------------------- MODULE TypeCoerce_Check -------------------------
(* Validation of observations of the real code against the spec (mode M4). *)
(* IOEnv.TRACE_FILE is ndjson, one observation per line:                   *)
(*   [id, q, t, v, acc, r, r2acc, r2, mw]                                  *)
(*   q = "coerce": value v was offered to a field / parser of type t;      *)
(*        acc: accepted; r: stored value; r2acc, r2: the stored value      *)
(*        offered again; mw: member-wise observations (TypeCoerce!ReAsBuilt)*)
(*   q = "run":   the task holding r in a field of type t was run;         *)
(*        r2acc: it ran; r2: the value its body received.                  *)
(* One verdict line per observation; nothing is decided in Python.         *)
EXTENDS TypeCoerce, Json, IOUtils

Obs == ndJsonDeserialize(IOEnv.TRACE_FILE)

VARIABLE n
Init == n \in 1..Len(Obs)
Next == FALSE /\ UNCHANGED n

o == Obs[n]
Verdict ==
  LET ab == IF o.acc /\ o.mw # <<>> THEN ReAsBuilt(o.t, o.r, <<>>, o.mw) ELSE Rej
  IN [ id       |-> o.id,
       wf       |-> WellFormedType(o.t) /\ WellFormedValue(o.v) /\ WellFormedValue(o.r) /\ WellFormedValue(o.r2),
       inconf   |-> Conforms(o.v, o.t),
       conforms |-> o.acc => Conforms(o.r, o.t),
       noconfusion |-> o.acc => ~StrSeqConfusion(o.v, o.r),
       idem     |-> o.acc => (o.r2acc /\ SameVal(o.r2, o.r)),
       unchanged |-> o.acc => SameVal(o.v, o.r),
       note     |-> IF o.acc THEN Note(o.v, o.r) ELSE "",
       hasunion |-> HasUnion(o.t),
       ab       |-> ab,
       abmatch  |-> o.acc /\ o.mw # <<>> /\ ab.acc = o.r2acc /\ (ab.acc => SameVal(ab.r, o.r2)) ]
Emit == PrintT(ToJson(Verdict))
=============================================================================
