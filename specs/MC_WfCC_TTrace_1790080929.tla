---- MODULE MC_WfCC_TTrace_1790080929 ----
EXTENDS MC_WfCC, Sequences, TLCExt, Toolbox, Naturals, TLC

_expression ==
    LET MC_WfCC_TEExpression == INSTANCE MC_WfCC_TEExpression
    IN MC_WfCC_TEExpression!expression
----

_trace ==
    LET MC_WfCC_TETrace == INSTANCE MC_WfCC_TETrace
    IN MC_WfCC_TETrace!trace
----

_inv ==
    ~(
        TLCGet("level") = Len(_TETrace)
        /\
        cache = ({[w |-> "F", vals |-> [x |-> 1, ys |-> 2, flag |-> TRUE], keys |-> {"x", "ys", "flag"}, obj |-> 1]})
        /\
        h = (<<[v |-> [x |-> 1, ys |-> 2, flag |-> TRUE], w |-> "F", lazy |-> {}, op |-> "run", how |-> "miss", obj |-> 1, obs |-> [w |-> "F", branch |-> TRUE, vals |-> [x |-> 1, ys |-> 2, flag |-> TRUE]]], [v |-> [x |-> 1, ys |-> 2, flag |-> TRUE], w |-> "F", lazy |-> {}, op |-> "construct", how |-> "exact", obj |-> 1, obs |-> [w |-> "F", branch |-> TRUE, vals |-> [x |-> 1, ys |-> 2, flag |-> TRUE]]], [v |-> [x |-> 11, ys |-> 2, flag |-> TRUE], w |-> "F", lazy |-> {}, op |-> "construct", how |-> "exact", obj |-> 1, obs |-> [w |-> "F", branch |-> TRUE, vals |-> [x |-> 1, ys |-> 2, flag |-> TRUE]]]>>)
        /\
        nobj = (1)
        /\
        objs = (<<[w |-> "F", branch |-> TRUE, vals |-> [x |-> 1, ys |-> 2, flag |-> TRUE], ran |-> 1]>>)
    )
----

_init ==
    /\ h = _TETrace[1].h
    /\ objs = _TETrace[1].objs
    /\ nobj = _TETrace[1].nobj
    /\ cache = _TETrace[1].cache
----

_next ==
    /\ \E i,j \in DOMAIN _TETrace:
        /\ \/ /\ j = i + 1
              /\ i = TLCGet("level")
        /\ h  = _TETrace[i].h
        /\ h' = _TETrace[j].h
        /\ objs  = _TETrace[i].objs
        /\ objs' = _TETrace[j].objs
        /\ nobj  = _TETrace[i].nobj
        /\ nobj' = _TETrace[j].nobj
        /\ cache  = _TETrace[i].cache
        /\ cache' = _TETrace[j].cache

\* Uncomment the ASSUME below to write the states of the error trace
\* to the given file in Json format. Note that you can pass any tuple
\* to `JsonSerialize`. For example, a sub-sequence of _TETrace.
    \* ASSUME
    \*     LET J == INSTANCE Json
    \*         IN J!JsonSerialize("MC_WfCC_TTrace_1790080929.json", _TETrace)

=============================================================================

 Note that you can extract this module `MC_WfCC_TEExpression`
  to a dedicated file to reuse `expression` (the module in the 
  dedicated `MC_WfCC_TEExpression.tla` file takes precedence 
  over the module `MC_WfCC_TEExpression` below).

---- MODULE MC_WfCC_TEExpression ----
EXTENDS MC_WfCC, Sequences, TLCExt, Toolbox, Naturals, TLC

expression == 
    [
        \* To hide variables of the `MC_WfCC` spec from the error trace,
        \* remove the variables below.  The trace will be written in the order
        \* of the fields of this record.
        h |-> h
        ,objs |-> objs
        ,nobj |-> nobj
        ,cache |-> cache
        
        \* Put additional constant-, state-, and action-level expressions here:
        \* ,_stateNumber |-> _TEPosition
        \* ,_hUnchanged |-> h = h'
        
        \* Format the `h` variable as Json value.
        \* ,_hJson |->
        \*     LET J == INSTANCE Json
        \*     IN J!ToJson(h)
        
        \* Lastly, you may build expressions over arbitrary sets of states by
        \* leveraging the _TETrace operator.  For example, this is how to
        \* count the number of times a spec variable changed up to the current
        \* state in the trace.
        \* ,_hModCount |->
        \*     LET F[s \in DOMAIN _TETrace] ==
        \*         IF s = 1 THEN 0
        \*         ELSE IF _TETrace[s].h # _TETrace[s-1].h
        \*             THEN 1 + F[s-1] ELSE F[s-1]
        \*     IN F[_TEPosition - 1]
    ]

=============================================================================



Parsing and semantic processing can take forever if the trace below is long.
 In this case, it is advised to uncomment the module below to deserialize the
 trace from a generated binary file.

\*
\*---- MODULE MC_WfCC_TETrace ----
\*EXTENDS MC_WfCC, IOUtils, TLC
\*
\*trace == IODeserialize("MC_WfCC_TTrace_1790080929.bin", TRUE)
\*
\*=============================================================================
\*

---- MODULE MC_WfCC_TETrace ----
EXTENDS MC_WfCC, TLC

trace == 
    <<
    ([cache |-> {},h |-> <<>>,nobj |-> 0,objs |-> <<>>]),
    ([cache |-> {[w |-> "F", vals |-> [x |-> 1, ys |-> 2, flag |-> TRUE], keys |-> {"x", "ys", "flag"}, obj |-> 1]},h |-> <<[v |-> [x |-> 1, ys |-> 2, flag |-> TRUE], w |-> "F", lazy |-> {}, op |-> "run", how |-> "miss", obj |-> 1, obs |-> [w |-> "F", branch |-> TRUE, vals |-> [x |-> 1, ys |-> 2, flag |-> TRUE]]]>>,nobj |-> 1,objs |-> <<[w |-> "F", branch |-> TRUE, vals |-> [x |-> 1, ys |-> 2, flag |-> TRUE], ran |-> 1]>>]),
    ([cache |-> {[w |-> "F", vals |-> [x |-> 1, ys |-> 2, flag |-> TRUE], keys |-> {"x", "ys", "flag"}, obj |-> 1]},h |-> <<[v |-> [x |-> 1, ys |-> 2, flag |-> TRUE], w |-> "F", lazy |-> {}, op |-> "run", how |-> "miss", obj |-> 1, obs |-> [w |-> "F", branch |-> TRUE, vals |-> [x |-> 1, ys |-> 2, flag |-> TRUE]]], [v |-> [x |-> 1, ys |-> 2, flag |-> TRUE], w |-> "F", lazy |-> {}, op |-> "construct", how |-> "exact", obj |-> 1, obs |-> [w |-> "F", branch |-> TRUE, vals |-> [x |-> 1, ys |-> 2, flag |-> TRUE]]]>>,nobj |-> 1,objs |-> <<[w |-> "F", branch |-> TRUE, vals |-> [x |-> 1, ys |-> 2, flag |-> TRUE], ran |-> 1]>>]),
    ([cache |-> {[w |-> "F", vals |-> [x |-> 1, ys |-> 2, flag |-> TRUE], keys |-> {"x", "ys", "flag"}, obj |-> 1]},h |-> <<[v |-> [x |-> 1, ys |-> 2, flag |-> TRUE], w |-> "F", lazy |-> {}, op |-> "run", how |-> "miss", obj |-> 1, obs |-> [w |-> "F", branch |-> TRUE, vals |-> [x |-> 1, ys |-> 2, flag |-> TRUE]]], [v |-> [x |-> 1, ys |-> 2, flag |-> TRUE], w |-> "F", lazy |-> {}, op |-> "construct", how |-> "exact", obj |-> 1, obs |-> [w |-> "F", branch |-> TRUE, vals |-> [x |-> 1, ys |-> 2, flag |-> TRUE]]], [v |-> [x |-> 11, ys |-> 2, flag |-> TRUE], w |-> "F", lazy |-> {}, op |-> "construct", how |-> "exact", obj |-> 1, obs |-> [w |-> "F", branch |-> TRUE, vals |-> [x |-> 1, ys |-> 2, flag |-> TRUE]]]>>,nobj |-> 1,objs |-> <<[w |-> "F", branch |-> TRUE, vals |-> [x |-> 1, ys |-> 2, flag |-> TRUE], ran |-> 1]>>])
    >>
----


=============================================================================

---- CONFIG MC_WfCC_TTrace_1790080929 ----
CONSTANTS
    Defs <- DF
    Vectors <- VF
    MaxOps = 3
    BranchInputsMayBeLazy = FALSE
    KeyOnContentOnly = TRUE

INVARIANT
    _inv

CHECK_DEADLOCK
    \* CHECK_DEADLOCK off because of PROPERTY or INVARIANT above.
    FALSE

INIT
    _init

NEXT
    _next

CONSTANT
    _TETrace <- _trace

ALIAS
    _expression
=============================================================================
\* Generated on Tue Sep 22 12:42:12 UTC 2026