------------------------------ MODULE MC_SubGen ------------------------------
EXTENDS Submitter_Gen
G(nodes, preds, njobs) == [nodes |-> nodes, preds |-> preds, njobs |-> njobs]
N(name, gr) == [name |-> name] @@ gr
One(ns) == [n \in ns |-> 1]
Chain3  == N("Chain3", G(<<"a","b","c">>, [a |-> {}, b |-> {"a"}, c |-> {"b"}], One({"a","b","c"})))
FanOut  == N("FanOut", G(<<"a","b","c">>, [a |-> {}, b |-> {"a"}, c |-> {"a"}], One({"a","b","c"})))
FanIn   == N("FanIn", G(<<"a","b","c">>, [a |-> {}, b |-> {}, c |-> {"a","b"}], One({"a","b","c"})))
Diamond == N("Diamond", G(<<"a","b","c","d">>, [a |-> {}, b |-> {"a"}, c |-> {"a"}, d |-> {"b","c"}], One({"a","b","c","d"})))
Indep4  == N("Indep4", G(<<"a","b","c","d">>, [a |-> {}, b |-> {}, c |-> {}, d |-> {}], One({"a","b","c","d"})))
SideChain == N("SideChain", G(<<"a","b","c","d">>, [a |-> {}, b |-> {}, c |-> {"b"}, d |-> {"c"}], One({"a","b","c","d"})))
Split32 == N("Split32", G(<<"a","b">>, [a |-> {}, b |-> {"a"}], [a |-> 3, b |-> 2]))
SplitSide == N("SplitSide", G(<<"a","b","c">>, [a |-> {}, b |-> {}, c |-> {"a"}], [a |-> 2, b |-> 2, c |-> 1]))
Wide6   == N("Wide6", G(<<"a">>, [a |-> {}], [a |-> 6]))
GChain3 == {Chain3}  GFanOut == {FanOut}  GFanIn == {FanIn}  GDiamond == {Diamond}  GIndep4 == {Indep4}
GSideChain == {SideChain}  GSplit32 == {Split32}  GSplitSide == {SplitSide}  GWide6 == {Wide6}
Quick14 == {SideChain, FanOut, SplitSide}
Quick15 == {Chain3, FanIn, Diamond, Split32}
Quick16 == {Indep4, SplitSide}
Conc    == {Indep4, Wide6, SplitSide, SideChain}
Small   == {Chain3, FanOut, FanIn, Diamond, Indep4, SideChain, Split32, SplitSide}
K0 == {0}  K1 == {1}  K2 == {2}  K3 == {3}  KAll == {0,1,2,3}  KLim == {1,2,3}
=============================================================================
