SPECIFICATION Spec
CONSTANTS
  Nodes = {"a", "b", "c"}
  NoProgressCheck = TRUE
INVARIANT SortedIsTopological
INVARIANT ErrorIffCyclic
PROPERTY Terminates
CHECK_DEADLOCK FALSE
