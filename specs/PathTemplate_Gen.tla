-------------------------- MODULE PathTemplate_Gen --------------------------
(* Case generator for C26: one initial state per case                       *)
(*   template (<= 3 parts + optional explicit extension) x input file name  *)
(*   (0/1/2 extensions) x second input (file, strings, int, float, list) x  *)
(*   keep_extension x how the caller sets the output (nothing / True /      *)
(*   absolute path / relative path / None / False) x output type.           *)
(* Inputs the template does not reference are fixed, so that no two cases   *)
(* differ only in something irrelevant.                                     *)
EXTENDS PathTemplate, Json, SequencesExt
CONSTANTS Wide,           \* TRUE: thorough menus
          Shard, NShards

VARIABLES parts, fb, g, keep, mode, otype
vars == <<parts, fb, g, keep, mode, otype>>

(* ---- literal texts (character codes) ---- *)
L_out  == <<111, 117, 116>>                 \* "out"
L_x    == <<95, 120>>                       \* "_x"
L_r2   == <<114, 45, 50>>                   \* "r-2"
E_dat  == <<46, 100, 97, 116>>              \* ".dat"
E_targz == <<46, 116, 97, 114, 46, 103, 122>>  \* ".tar.gz"
F_a    == <<97>>                            \* "a"
F_atxt == <<97, 46, 116, 120, 116>>         \* "a.txt"
F_anii == <<97, 46, 110, 105, 105, 46, 103, 122>>  \* "a.nii.gz"
F_bimg == <<98, 46, 105, 109, 103>>         \* "b.img"
Given_abs == <<33, 47, 111, 95, 103, 105, 118, 101, 110, 46, 116, 120, 116>>   \* "!/o_given.txt" ("!" = a directory outside the cache)
Given_rel == <<114, 101, 108, 95, 111, 46, 116, 120, 116>>                     \* "rel_o.txt"

Lits == IF Wide THEN {L_out, L_x, L_r2} ELSE {L_out, L_x}
Exts == IF Wide THEN {<<>>, E_dat, E_targz} ELSE {<<>>, E_dat}
BodyParts == {LitP(l) : l \in Lits} \cup {RefP("f"), RefP("g")}

NoAdjacentLits(b) == \A i \in 1..(Len(b) - 1) : ~(b[i].k = "lit" /\ b[i + 1].k = "lit")
Distinct(b)       == \A i, j \in 1..Len(b) : i # j => b[i] # b[j]
Bodies == UNION { { b \in [1..n -> BodyParts] : NoAdjacentLits(b) /\ Distinct(b) } : n \in 1..3 }
(* an explicit extension is a final literal; it may not follow another literal's dot-free text directly only if adjacent lits are excluded *)
Templates == { IF e = <<>> THEN b ELSE Append(b, LitP(e)) : b \in Bodies, e \in Exts }

FileNames == {F_a, F_atxt, F_anii}
GValues ==
  { GVal("file", F_bimg, <<>>),
    GVal("str", <<83>>, <<>>),                 \* "S"
    GVal("str", <<118, 49, 46, 50>>, <<>>),    \* "v1.2"
    GVal("str", <<100, 47, 101>>, <<>>),       \* "d/e"
    GVal("str", <<46, 46>>, <<>>),             \* ".."
    GVal("str", <<>>, <<>>),                   \* ""
    GVal("int", <<51>>, <<>>),                 \* 3
    GVal("float", <<49, 46, 53>>, <<>>),       \* 1.5
    GVal("list", <<91, 49, 44, 32, 50, 93>>, << <<49>>, <<50>> >>) }   \* [1, 2]
  \cup (IF Wide THEN { GVal("str", <<46>>, <<>>),                      \* "."
                       GVal("str", <<47, 116, 47, 117>>, <<>>),        \* "/t/u"
                       GVal("int", <<45, 55>>, <<>>) }                 \* -7
        ELSE {})
DefaultG == GVal("str", <<83>>, <<>>)

(* explicit paths / False / None are independent of the template: a few templates suffice *)
SmallTemplates == { <<RefP("f"), LitP(L_x)>>, <<LitP(L_out)>>, <<LitP(L_out), RefP("g"), LitP(E_dat)>> }

CaseOf == [parts |-> parts, fb |-> fb, g |-> g, keep |-> keep, mode |-> mode, otype |-> otype,
           given |-> IF mode = "abs" THEN Given_abs ELSE IF mode = "rel" THEN Given_rel ELSE <<>>]

TemplateSeq == SetToSeq(Templates)

Init ==
  /\ \E i \in 1..Len(TemplateSeq) : i % NShards = Shard /\ parts = TemplateSeq[i]
  /\ fb \in (IF "f" \in Refs(parts) THEN FileNames ELSE {F_atxt})
  /\ g \in (IF "g" \in Refs(parts) THEN GValues ELSE {DefaultG})
  /\ keep \in BOOLEAN
  /\ otype \in {"file", "optfile"} \cup (IF g.kind = "list" /\ "g" \in Refs(parts) THEN {"multi"} ELSE {})
  /\ mode \in {"default", "true"}
             \cup (IF parts \in SmallTemplates /\ otype # "multi" THEN {"abs", "rel"} ELSE {})
             \cup (IF parts \in SmallTemplates /\ otype = "optfile" THEN {"false"} ELSE {})
  /\ (otype = "optfile" /\ parts \notin SmallTemplates) => mode = "true"    \* optional outputs: elsewhere only asked-for ones
Next == FALSE /\ UNCHANGED vars

c == CaseOf
Names == IF NPaths(c) = 1 THEN << IdealName(parts, fb, g, keep, GText(g)) >>
         ELSE [i \in 1..NPaths(c) |-> IdealName(parts, fb, g, keep, g.items[i])]

Case ==
  [ c        |-> c,
    template |-> TemplateText(parts),
    (* expected, computed by the spec *)
    uses_template |-> UsesTemplate(c),
    ideal    |-> IF UsesTemplate(c) /\ ~TwoFiles(c) /\ ~ListOpen(c) THEN Names ELSE <<>>,    \* recorded only
    ends     |-> IF UsesTemplate(c) THEN MustEndWith(parts, fb, g, keep) ELSE <<>>,
    without  |-> IF UsesTemplate(c) THEN MustNotContain(parts, fb, g, keep) ELSE <<>>,
    npaths   |-> NPaths(c),
    twofiles |-> TwoFiles(c),
    (* can the real command be run (the file-creating script needs a creatable name)? *)
    run      |-> ~TwoFiles(c) /\ ~NoValidName(c) /\ ~ListOpen(c),
    known    |-> IF Degenerate(c) THEN "C26-degenerate-template-name" ELSE "",
    asbuilt  |-> IF Degenerate(c) THEN AsBuiltPath(c) ELSE <<>> ]
Emit == PrintT(ToJson(Case))

(* spec-level theorems, evaluated on every enumerated case *)
Theorems ==
  /\ \A n \in Range(Names) : UsesTemplate(c) /\ ~TwoFiles(c) /\ ~ListOpen(c) /\ ~NoValidName(c) /\ ~(\E k \in 1..Len(n) : n[k] = Slash) =>
        LET pt == [k |-> "path", p |-> InJob(n), items |-> <<>>, e |-> ""] IN
        PointFailures(c, IF NPaths(c) = 1 /\ otype # "multi" THEN pt ELSE [pt EXCEPT !.k = "list", !.items = [i \in 1..NPaths(c) |-> InJob(Names[i])]], FALSE) = {}
        \* the name the template spells satisfies every judged requirement (the oracle is satisfiable)
  /\ MustEndWith(parts, fb, g, keep) # <<>> => MustNotContain(parts, fb, g, keep) = <<>>
  /\ Degenerate(c) => ~Inside(AsBuiltPath(c))                \* the as-built prediction is a genuine deviation
  /\ Inside(InJob(<<97>>)) /\ ~Inside(JobSym) /\ ~Inside(InJob(<<Dot, Dot>>)) /\ ~Inside(InJob(<<Dot, Dot, Slash, 97>>))
  /\ Inside(InJob(<<97, Slash, Dot, Dot, Slash, 98>>)) /\ ~Inside(<<Slash, 97>>)
=============================================================================
