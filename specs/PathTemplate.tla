---------------------------- MODULE PathTemplate ----------------------------
(***************************************************************************)
(* Reference semantics of OUTPUT PATH TEMPLATES of pydra shell tasks       *)
(* (property C26), written from the property statement and the field       *)
(* documentation (shell.outarg: "path_template: The template used to       *)
(* specify where the output file will be written to can use other fields,  *)
(* e.g. {file1}"; "if True, the default path template will be used";       *)
(* "If False or None, the output file will not be saved"; tutorial:        *)
(* "this value can always be overridden when the task is initialised").    *)
(*                                                                         *)
(* Strings whose characters matter (template text, file names, values,     *)
(* paths) are sequences of character codes.  A path is judged in a         *)
(* component model: split at '/', '.' and empty components dropped, '..'   *)
(* pops.  The job's cache directory is the symbolic first component "%".   *)
(*                                                                         *)
(* What the statement decides (and this module judges):                    *)
(*   Inside        the resolved path lies strictly inside the job directory *)
(*   Deterministic every evaluation of the same inputs gives the same path  *)
(*   Extension     keep_extension => the name ends with the input file's    *)
(*                 extension; not keep => that extension does not occur     *)
(*   Given         an explicit path is used exactly as given                *)
(*   NotSaved      False / None => no path                                  *)
(* What it does not decide is left open: the exact file name (IdealName is  *)
(* emitted for the record only), keep_extension when the template carries   *)
(* its own extension, templates naming two files (documented as             *)
(* unsupported), the text a list is printed as.                             *)
(***************************************************************************)
EXTENDS Naturals, Sequences, FiniteSets, TLC

Dot    == 46
Slash  == 47
JobSym == <<37>>          \* "%": the job's own cache directory

(* ------------------------- character sequences ------------------------- *)
IndexOfFirst(s, c) ==
  IF \E i \in 1..Len(s) : s[i] = c
  THEN CHOOSE i \in 1..Len(s) : s[i] = c /\ \A j \in 1..(i - 1) : s[j] # c
  ELSE 0
EndsWith(s, t)   == Len(t) <= Len(s) /\ SubSeq(s, Len(s) - Len(t) + 1, Len(s)) = t
StartsWith(s, t) == Len(t) <= Len(s) /\ SubSeq(s, 1, Len(t)) = t
HasInfix(s, t)   == \E i \in 1..(Len(s) - Len(t) + 1) : SubSeq(s, i, i + Len(t) - 1) = t

RECURSIVE Concat(_)
Concat(ss) == IF ss = <<>> THEN <<>> ELSE Head(ss) \o Concat(Tail(ss))

(* a file name = stem + extension; the extension starts at the first dot    *)
(* ("a.nii.gz": two extensions, both belong to it; "a": none)               *)
Stem(b) == LET i == IndexOfFirst(b, Dot) IN IF i = 0 THEN b ELSE SubSeq(b, 1, i - 1)
Ext(b)  == LET i == IndexOfFirst(b, Dot) IN IF i = 0 THEN <<>> ELSE SubSeq(b, i, Len(b))

(* ------------------------------- paths --------------------------------- *)
RECURSIVE Split(_, _)
Split(s, c) == LET i == IndexOfFirst(s, c) IN
               IF i = 0 THEN <<s>> ELSE <<SubSeq(s, 1, i - 1)>> \o Split(SubSeq(s, i + 1, Len(s)), c)

RECURSIVE Norm(_, _)      \* lexical normalisation of a component sequence
Norm(cs, acc) ==
  IF cs = <<>> THEN acc
  ELSE LET h == Head(cs) IN
       IF h = <<>> \/ h = <<Dot>> THEN Norm(Tail(cs), acc)
       ELSE IF h = <<Dot, Dot>> THEN Norm(Tail(cs), IF acc = <<>> THEN <<>> ELSE SubSeq(acc, 1, Len(acc) - 1))
       ELSE Norm(Tail(cs), Append(acc, h))

Components(p) == Norm(Split(p, Slash), <<>>)
Inside(p)     == LET c == Components(p) IN Len(c) >= 2 /\ c[1] = JobSym   \* strictly below "%"
LastComp(p)   == LET c == Components(p) IN IF c = <<>> THEN <<>> ELSE c[Len(c)]
InJob(rel)    == JobSym \o <<Slash>> \o rel

(* ------------------------------ templates ------------------------------ *)
(* part = [k |-> "lit", s |-> chars, f |-> ""] | [k |-> "ref", s |-> <<>>, f |-> "f" | "g"] *)
LitP(s) == [k |-> "lit", s |-> s, f |-> ""]
RefP(f) == [k |-> "ref", s |-> <<>>, f |-> f]

(* inputs: f = a file (base name fb); g = [kind, s, items]                  *)
(*   kind "file": s = base name;  "str" / "int" / "float": s = printed text; *)
(*   "list": items = printed texts of the elements                          *)
GVal(kind, s, items) == [kind |-> kind, s |-> s, items |-> items]

Refs(parts)        == { parts[i].f : i \in { j \in 1..Len(parts) : parts[j].k = "ref" } }
FileRefs(parts, g) == { r \in Refs(parts) : r = "f" \/ (r = "g" /\ g.kind = "file") }
TemplateHasExt(parts) == \E i \in 1..Len(parts) : parts[i].k = "lit" /\ \E j \in 1..Len(parts[i].s) : parts[i].s[j] = Dot
TemplateText(parts) ==
  Concat([i \in 1..Len(parts) |-> IF parts[i].k = "lit" THEN parts[i].s
                                  ELSE <<123>> \o (IF parts[i].f = "f" THEN <<102>> ELSE <<103>>) \o <<125>>])

(* the file whose extension "keep_extension" talks about (when exactly one file is named) *)
TheFile(parts, fb, g) == IF "f" \in Refs(parts) THEN fb ELSE g.s

(* {field} is replaced by the value; a file contributes its stem *)
Format(parts, fb, gtext) ==
  Concat([i \in 1..Len(parts) |-> IF parts[i].k = "lit" THEN parts[i].s
                                  ELSE IF parts[i].f = "f" THEN Stem(fb) ELSE gtext])

GText(g) == IF g.kind = "file" THEN Stem(g.s) ELSE g.s

(* the name the template spells (recorded, not judged) *)
IdealName(parts, fb, g, keep, gtext) ==
  LET body == Format(parts, fb, gtext) IN
  IF keep /\ ~TemplateHasExt(parts) /\ Cardinality(FileRefs(parts, g)) = 1
  THEN body \o Ext(TheFile(parts, fb, g)) ELSE body

(* extension requirements on the resolved name; <<>> = no requirement *)
ExtDecided(parts, g) == Cardinality(FileRefs(parts, g)) = 1
MustEndWith(parts, fb, g, keep) ==
  IF ExtDecided(parts, g) /\ keep /\ ~TemplateHasExt(parts) THEN Ext(TheFile(parts, fb, g)) ELSE <<>>
MustNotContain(parts, fb, g, keep) ==
  IF ExtDecided(parts, g) /\ ~keep THEN Ext(TheFile(parts, fb, g)) ELSE <<>>

(* ------------------------------ cases ---------------------------------- *)
(* mode: "default" nothing passed | "true" | "abs" | "rel" explicit path |  *)
(*       "false" (optional outputs only)                                    *)
(* otype: "file" | "optfile" | "multi" (one output per list element)        *)
TwoFiles(c)   == Cardinality(FileRefs(c.parts, c.g)) = 2
NotSaved(c)     == c.mode = "false" \/ (c.mode = "default" /\ c.otype = "optfile")   \* optional outputs default to None
UsesTemplate(c) == c.mode = "true" \/ (c.mode = "default" /\ c.otype # "optfile")
ListOpen(c)   == c.g.kind = "list" /\ "g" \in Refs(c.parts) /\ c.otype # "multi"   \* printed text of a list: open

(* the template spells "", "." or "..": there is no file of that name *)
NoValidName(c) == UsesTemplate(c) /\ FileRefs(c.parts, c.g) = {} /\ ~ListOpen(c)
                  /\ Format(c.parts, c.fb, GText(c.g)) \in { <<>>, <<Dot>>, <<Dot, Dot>> }

(* ------------- observations and the conformance predicate -------------- *)
(* an observation point: [k |-> "path" | "list" | "none" | "error" | "skip", *)
(*                        p |-> chars, items |-> <<chars>>, e |-> STRING]    *)
(* paths are projected by the harness: the job directory prefix is "%".     *)
NameOK(c, p) ==
  LET n == LastComp(p)
      keepx == MustEndWith(c.parts, c.fb, c.g, c.keep)
      dropx == MustNotContain(c.parts, c.fb, c.g, c.keep)
  IN [inside |-> Inside(p),
      ext    |-> (keepx # <<>> => EndsWith(n, keepx)) /\ (dropx # <<>> => ~HasInfix(n, dropx))]

NPaths(c) == IF c.otype = "multi" /\ c.g.kind = "list" /\ "g" \in Refs(c.parts) THEN Len(c.g.items) ELSE 1

SameFile(p, given) == p = given \/ (given # <<>> /\ given[1] # Slash /\ p = InJob(given))

(* failed requirements of one observation point ("out" = the collected output object) *)
PointFailures(c, pt, isOut) ==
  IF pt.k = "skip" THEN {}
  ELSE IF c.mode \in {"abs", "rel"} THEN
       IF pt.k = "path" /\ (pt.p = c.given \/ (isOut /\ SameFile(pt.p, c.given))) THEN {} ELSE {"given"}
  ELSE IF NotSaved(c) THEN (IF pt.k = "none" THEN {} ELSE {"notsaved"})
  ELSE IF TwoFiles(c) /\ pt.k = "error" THEN {}            \* documented as unsupported: rejection admitted
  ELSE IF NoValidName(c) /\ pt.k = "error" THEN {}         \* no file can be called "", "." or "..": rejection admitted
  ELSE LET ps == IF pt.k = "path" THEN <<pt.p>> ELSE IF pt.k = "list" THEN pt.items ELSE <<>>
           multi == NPaths(c) > 1 \/ c.otype = "multi"
           (* a collected multi-output may come back as one object when only one distinct file exists *)
           shapeOK == IF isOut /\ multi THEN Len(ps) >= 1 /\ Len(ps) <= NPaths(c)
                      ELSE Len(ps) = NPaths(c) /\ ((pt.k = "list") = multi)
       IN
       IF pt.k \notin {"path", "list"} \/ ~shapeOK
       THEN {"shape"}
       ELSE UNION { (IF NameOK(c, ps[i]).inside THEN {} ELSE {"inside"}) \cup
                    (IF NameOK(c, ps[i]).ext THEN {} ELSE {"extension"}) : i \in 1..Len(ps) }

PathSet(pt) == IF pt.k = "path" THEN {pt.p} ELSE IF pt.k = "list" THEN { pt.items[i] : i \in 1..Len(pt.items) } ELSE {}

(* obs = [i1, i2, av, ou]: Job.inputs twice (independent objects and cache roots), *)
(* the argument the process received, the collected output                        *)
Failures(c, obs) ==
  LET pts  == <<obs.i1, obs.i2, obs.av, obs.ou>>
      seen == { i \in 1..4 : pts[i].k # "skip" }
      same(i, j) == LET a == pts[i] b == pts[j] IN
                    \/ a = b
                    \/ (c.mode = "rel" /\ a.k = "path" /\ b.k = "path" /\ SameFile(a.p, c.given) /\ SameFile(b.p, c.given))
                    \/ (4 \in {i, j} /\ c.otype = "multi" /\ a.k \in {"path", "list"} /\ b.k \in {"path", "list"}
                        /\ PathSet(a) = PathSet(b))          \* collected multi-output: the same set of files
  IN UNION { PointFailures(c, pts[i], i = 4) : i \in 1..4 }
     \cup (IF \A i, j \in seen : same(i, j) THEN {} ELSE {"deterministic"})

(* --------------- named as-built reference (known finding) --------------- *)
(* C26-degenerate-template-name: only the final path component of the       *)
(* formatted template is kept, and it is not checked: when that component   *)
(* is "..", the result is the parent of the job directory; when it is empty *)
(* or ".", the job directory itself.                                        *)
DegenerateNames == { <<>>, <<Dot>>, <<Dot, Dot>> }
Degenerate(c) ==
  /\ UsesTemplate(c) /\ FileRefs(c.parts, c.g) = {} /\ ~ListOpen(c) /\ NPaths(c) = 1
  /\ Format(c.parts, c.fb, GText(c.g)) \in DegenerateNames
AsBuiltPath(c) ==
  IF Format(c.parts, c.fb, GText(c.g)) = <<Dot, Dot>> THEN JobSym \o <<Slash, Dot, Dot>> ELSE JobSym
=============================================================================
