SPECIFICATION Spec
CONSTANTS
  Graphs <- Small
  Ks <- KAll
  FailChoices = "none"
  SliceIgnoresRunning = FALSE
  RunningLoopRaises = FALSE
CHECK_DEADLOCK FALSE
INVARIANT StartAfterPredsSucceeded
INVARIANT EachJobOnce
INVARIANT AllRunWhenNoFailure
INVARIANT NeverCrashes
