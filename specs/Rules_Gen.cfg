INIT Init
NEXT Next
CONSTANTS
  N = 2
  Kinds = {"b", "s", "i"}
  MaxMand = 0
  MaxReqSets = 2
  MaxReqs = 2
  Owners = 2
  MaxXor = 2
  MinGroup = 2
  MaxGroup = 3
  Shard = 0
  NShards = 1
INVARIANT Emit
INVARIANT Theorems
CHECK_DEADLOCK FALSE
