----------------------------- MODULE TypeCoerce -----------------------------
(***************************************************************************)
(* Reference semantics for typed task fields (properties C20, C21).        *)
(* Written from the property statements and docs/source/explanation/       *)
(* typing.rst: what it MEANS for a stored value to conform to a declared   *)
(* type (isinstance-style, element types included), which values a type is *)
(* inhabited by, and what "a string silently split into a sequence / a     *)
(* sequence joined into a string" is.  Nothing here says HOW a value is    *)
(* coerced; the coercion is the implementation's business and is only      *)
(* observed.                                                               *)
(*                                                                         *)
(* Types are uniform records  [k, args]:                                   *)
(*   k \in "int" "float" "bool" "str" "bytes" "path" "file" "dir" "none"   *)
(*        (args = <<>>);  "union" (args = members in declaration order;    *)
(*        Optional[t] is Union[t, None]);  "list" "tuplev" (tuple[t, ...]) *)
(*        "set" "multi" (MultiInputObj[t]) "dict" (dict[str, t]) with one  *)
(*        argument;  "tuple" (fixed length, one argument per position).    *)
(* Values are uniform tagged records  [k, c, items]:                       *)
(*   "int" c = <<n>>;  "bool" c = <<0|1>>;  "float" c = <<tenths>>;        *)
(*   "str" "bytes" "path" "file" "dir": c = character codes (for file      *)
(*   system objects: of the name relative to the harness directory);       *)
(*   "none";  "list" "tuple" "set" "dict": items;  a dict's items are      *)
(*   "pair" values with items = <<key, value>>;  "other" = anything else.  *)
(***************************************************************************)
EXTENDS Naturals, Sequences, FiniteSets, SequencesExt, FiniteSetsExt, Functions, TLC

Ty(k, as)   == [k |-> k, args |-> as]
V(k, c, xs) == [k |-> k, c |-> c, items |-> xs]

AtomKinds == {"int", "float", "bool", "str", "bytes", "path", "file", "dir", "none"}
TNone     == Ty("none", <<>>)
Atom(k)   == Ty(k, <<>>)
Opt(t)    == Ty("union", <<t, TNone>>)

(* ---- value constructors ---- *)
I(n)    == V("int", <<n>>, <<>>)
B(b)    == V("bool", <<IF b THEN 1 ELSE 0>>, <<>>)
F(t)    == V("float", <<t>>, <<>>)          \* t = value * 10
S(cs)   == V("str", cs, <<>>)
Y(cs)   == V("bytes", cs, <<>>)
P(cs)   == V("path", cs, <<>>)
NoneV   == V("none", <<>>, <<>>)
L(xs)   == V("list", <<>>, xs)
T(xs)   == V("tuple", <<>>, xs)
St(xs)  == V("set", <<>>, xs)
D(ps)   == V("dict", <<>>, ps)
Pair(k, v) == V("pair", <<>>, <<k, v>>)

ca == <<97>>          \* "a"
cab == <<97, 98>>     \* "ab"
cf == <<102>>         \* "f"  : the regular file the harness creates
cd == <<100>>         \* "d"  : the directory the harness creates
ck == <<107>>         \* "k"
cj == <<106>>         \* "j"
FileV == V("file", cf, <<>>)
DirV  == V("dir", cd, <<>>)

IsCont(v) == v.k \in {"list", "tuple", "set"}
IsSeqV(v) == v.k \in {"list", "tuple"}

(* ------------------------------------------------------------------------ *)
(* Conformance: isinstance-style, element types included.  bool is a        *)
(* subclass of int in Python; nothing else in the grammar is a subclass of  *)
(* anything else (a Path is not a str, a File is not a Path, an int is not  *)
(* a float).  A MultiInputObj[t] field stores a list of t.                  *)
(* ------------------------------------------------------------------------ *)
RECURSIVE Conforms(_, _)
Conforms(v, t) ==
  CASE t.k = "int"    -> v.k \in {"int", "bool"}
    [] t.k \in AtomKinds \ {"int"} -> v.k = t.k
    [] t.k = "union"  -> \E i \in 1..Len(t.args) : Conforms(v, t.args[i])
    [] t.k \in {"list", "multi"} -> v.k = "list" /\ \A i \in 1..Len(v.items) : Conforms(v.items[i], t.args[1])
    [] t.k = "tuplev" -> v.k = "tuple" /\ \A i \in 1..Len(v.items) : Conforms(v.items[i], t.args[1])
    [] t.k = "set"    -> v.k = "set" /\ \A i \in 1..Len(v.items) : Conforms(v.items[i], t.args[1])
    [] t.k = "tuple"  -> /\ v.k = "tuple" /\ Len(v.items) = Len(t.args)
                         /\ \A i \in 1..Len(t.args) : Conforms(v.items[i], t.args[i])
    [] t.k = "dict"   -> /\ v.k = "dict"
                         /\ \A i \in 1..Len(v.items) :
                              /\ v.items[i].k = "pair"
                              /\ v.items[i].items[1].k = "str"
                              /\ Conforms(v.items[i].items[2], t.args[1])
    [] OTHER -> FALSE

(* ------------------------------------------------------------------------ *)
(* String / sequence confusion (judged where the result is a list or tuple, *)
(* or a string).  Split: a string went in, the sequence of its characters   *)
(* came out.  A one-character string wrapped as a one-element list is the   *)
(* documented MultiInputObj behaviour and cannot be told from a split, so   *)
(* it is not one.  Join: a list/tuple went in, a string came out.           *)
(* The relation is structural: it also looks inside containers of equal     *)
(* length and inside a value that was wrapped into a one-element list.      *)
(* ------------------------------------------------------------------------ *)
Chars(cs) == [i \in 1..Len(cs) |-> S(<<cs[i]>>)]
Split(v, r) == v.k = "str" /\ IsSeqV(r) /\ Len(v.c) # 1 /\ r.items = Chars(v.c)
Join(v, r)  == IsSeqV(v) /\ r.k = "str"

RECURSIVE StrSeqConfusion(_, _)
StrSeqConfusion(v, r) ==
  \/ Split(v, r)
  \/ Join(v, r)
  \/ /\ v.k \in {"list", "tuple", "dict", "pair"} /\ r.k \in {"list", "tuple", "dict", "pair"}
     /\ Len(v.items) = Len(r.items)
     /\ \E i \in 1..Len(v.items) : StrSeqConfusion(v.items[i], r.items[i])
  \/ /\ v.k \notin {"list", "tuple", "set", "dict"} /\ r.k = "list" /\ Len(r.items) = 1
     /\ StrSeqConfusion(v, r.items[1])

(* neighbours of the statement that are recorded, never judged *)
Note(v, r) ==
  IF v.k = "str" /\ r.k = "set" THEN "str accepted by a set target (iterated into a set of characters)"
  ELSE IF v.k = "bytes" /\ IsCont(r) THEN "bytes accepted by a sequence/set target (iterated into integers)"
  ELSE IF IsCont(v) /\ r.k = "bytes" THEN "list/tuple/set of integers accepted by a bytes target"
  ELSE IF v.k = "set" /\ r.k = "str" THEN "set accepted by a str target (stored as its repr)"
  ELSE IF v.k = "str" /\ IsSeqV(r) /\ Len(v.c) = 1 /\ r.items = Chars(v.c) THEN "one-character string stored as a one-element list"
  ELSE ""

(* ---- equality of values up to the order of set elements ---- *)
RECURSIVE SameVal(_, _)
SameVal(x, y) ==
  /\ x.k = y.k /\ x.c = y.c /\ Len(x.items) = Len(y.items)
  /\ IF x.k = "set"
       THEN /\ \A i \in 1..Len(x.items) : \E j \in 1..Len(y.items) : SameVal(x.items[i], y.items[j])
            /\ \A j \in 1..Len(y.items) : \E i \in 1..Len(x.items) : SameVal(x.items[i], y.items[j])
       ELSE \A i \in 1..Len(x.items) : SameVal(x.items[i], y.items[i])

(* ------------------------------------------------------------------------ *)
(* Inhabitants: a small ordered family of values of each type.              *)
(* ------------------------------------------------------------------------ *)
RECURSIVE Dedup(_)
Dedup(s) == IF s = <<>> THEN <<>>
            ELSE LET r == Dedup(Front(s)) IN IF Last(s) \in Range(r) THEN r ELSE Append(r, Last(s))

FirstTwo(s) == IF Len(s) <= 2 THEN s ELSE SubSeq(s, 1, 2)

RECURSIVE InhSeq(_)
InhSeq(t) ==
  CASE t.k = "int"   -> <<I(1), I(0), B(TRUE)>>
    [] t.k = "float" -> <<F(15), F(10)>>
    [] t.k = "bool"  -> <<B(TRUE), B(FALSE)>>
    [] t.k = "str"   -> <<S(ca), S(cab), S(<<>>), S(cf)>>
    [] t.k = "bytes" -> <<Y(cab)>>
    [] t.k = "path"  -> <<P(cf), P(ca)>>
    [] t.k = "file"  -> <<FileV>>
    [] t.k = "dir"   -> <<DirV>>
    [] t.k = "none"  -> <<NoneV>>
    [] t.k = "union" -> Dedup(FlattenSeq([i \in 1..Len(t.args) |-> InhSeq(t.args[i])]))
    [] t.k \in {"list", "multi", "tuplev"} ->
         LET e == InhSeq(t.args[1])
             K == IF t.k = "tuplev" THEN "tuple" ELSE "list"
         IN <<V(K, <<>>, <<>>)>> \o [i \in 1..Len(e) |-> V(K, <<>>, <<e[i]>>)]
                                \o <<V(K, <<>>, <<e[1], e[Len(e)]>>)>>
    [] t.k = "set" ->
         LET e == InhSeq(t.args[1])
         IN <<St(<<>>)>> \o [i \in 1..Len(e) |-> St(<<e[i]>>)]
                         \o (IF Len(e) >= 2 THEN <<St(<<e[1], e[2]>>)>> ELSE <<>>)
    [] t.k = "tuple" ->
         LET a == FirstTwo(InhSeq(t.args[1]))
             b == FirstTwo(InhSeq(t.args[2]))
         IN FlattenSeq([i \in 1..Len(a) |-> [j \in 1..Len(b) |-> T(<<a[i], b[j]>>)]])
    [] t.k = "dict" ->
         LET e == InhSeq(t.args[1])
         IN <<D(<<>>)>> \o [i \in 1..Len(e) |-> D(<<Pair(S(ck), e[i])>>)]

Inhabitants(t) == Range(InhSeq(t))

(* Python equality identifies True with 1 and 1.0 with 1: relevant for set literals *)
IsNum(v) == v.k \in {"int", "bool", "float"}
PyNum(v) == IF v.k = "float" THEN v.c[1] ELSE v.c[1] * 10
PyDistinct(x, y) == IF IsNum(x) /\ IsNum(y) THEN PyNum(x) # PyNum(y) ELSE x # y

(* ------------------------------------------------------------------------ *)
(* C21: what is set aside, and the as-built deviation classes.              *)
(* Aside(m, v, t): somewhere along the structure the target t asks for      *)
(*   m = "arity": a fixed-length tuple where v has a different number of    *)
(*                elements (the statement: "fixed-length tuple arity aside")*)
(*   m = "bytes": bytes where v is a list/tuple/set that is not made of     *)
(*                small integers (as-built class C21-seq-to-bytes)          *)
(* FsAside(v, t): the target mentions File/Directory and the value carries  *)
(*   a string or path (anywhere, dictionary keys included) that does not    *)
(*   name an existing object of such a kind.  Whether a string names a file *)
(*   is a precondition on the value, not a matter of its type, so such      *)
(*   triples are not judged -- deliberately coarse: it does not follow the  *)
(*   route by which the implementation might offer the string to the File.  *)
(* ------------------------------------------------------------------------ *)
Names(cs, kind) == (kind = "file" /\ cs = cf) \/ (kind = "dir" /\ cs = cd)
ByteInt(x) == x.k \in {"int", "bool"} /\ x.c[1] < 256

RECURSIVE FsKinds(_)
FsKinds(t) == (IF t.k \in {"file", "dir"} THEN {t.k} ELSE {})
              \cup UNION { FsKinds(t.args[i]) : i \in 1..Len(t.args) }
RECURSIVE StrLeaves(_)
StrLeaves(v) == (IF v.k \in {"str", "path"} THEN {v.c} ELSE {})
                \cup UNION { StrLeaves(v.items[i]) : i \in 1..Len(v.items) }
FsAside(v, t) == \E cs \in StrLeaves(v), kind \in FsKinds(t) : ~Names(cs, kind)

Base(m, v, t) ==
  CASE m = "arity" -> t.k = "tuple" /\ IsCont(v) /\ Len(v.items) # Len(t.args)
    [] m = "bytes" -> t.k = "bytes" /\ IsCont(v) /\ \E i \in 1..Len(v.items) : ~ByteInt(v.items[i])

RECURSIVE Aside(_, _, _)
Aside(m, v, t) ==
  \/ Base(m, v, t)
  \/ t.k = "union" /\ \E i \in 1..Len(t.args) : Aside(m, v, t.args[i])
  \/ t.k \in {"list", "tuplev", "set", "multi"} /\ IsCont(v)
       /\ \E i \in 1..Len(v.items) : Aside(m, v.items[i], t.args[1])
  \/ t.k = "multi" /\ Aside(m, v, t.args[1])         \* a single item is wrapped
  \/ t.k = "tuple" /\ IsCont(v) /\ Len(v.items) = Len(t.args)
       /\ \E i \in 1..Len(t.args) : Aside(m, v.items[i], t.args[i])
  \/ t.k = "dict" /\ v.k = "dict"
       /\ \E i \in 1..Len(v.items) : Aside(m, v.items[i].items[2], t.args[1])

(* A value that already conforms to the target is never set aside. *)
Judged(v, t) == Conforms(v, t) \/ ~(Aside("arity", v, t) \/ FsAside(v, t))

(* As-built class C21-union-fs-abort: at a union position an EARLIER member *)
(* mentions a File/Directory that a string/path of the value does not name, *)
(* while the value conforms to a LATER member: the file-system error        *)
(* escapes the union instead of the later member taking the value.          *)
RECURSIVE UnionFsAbort(_, _)
UnionFsAbort(v, t) ==
  \/ /\ t.k = "union"
     /\ \E i, j \in 1..Len(t.args) : i < j /\ FsAside(v, t.args[i]) /\ Conforms(v, t.args[j])
                                     /\ \A h \in 1..(i-1) : ~Conforms(v, t.args[h])
  \/ t.k = "union" /\ \E i \in 1..Len(t.args) : UnionFsAbort(v, t.args[i])
  \/ t.k \in {"list", "tuplev", "set", "multi"} /\ IsCont(v)
       /\ \E i \in 1..Len(v.items) : UnionFsAbort(v.items[i], t.args[1])
  \/ t.k = "multi" /\ UnionFsAbort(v, t.args[1])
  \/ t.k = "tuple" /\ IsCont(v) /\ Len(v.items) = Len(t.args)
       /\ \E i \in 1..Len(t.args) : UnionFsAbort(v.items[i], t.args[i])
  \/ t.k = "dict" /\ v.k = "dict"
       /\ \E i \in 1..Len(v.items) : UnionFsAbort(v.items[i].items[2], t.args[1])

(* ideal: every judged inhabitant of a statically accepted source is accepted *)
RuntimeIdeal(v, t) == TRUE
(* as built: named deviation, or "" when the as-built code is expected to agree *)
C21Class(v, t) ==
  IF Aside("bytes", v, t) /\ ~Conforms(v, t) THEN "C21-seq-to-bytes"
  ELSE IF UnionFsAbort(v, t) THEN "C21-union-fs-abort"
  ELSE ""
RuntimeAsBuilt(v, t) == C21Class(v, t) = ""

(* ------------------------------------------------------------------------ *)
(* C20 idempotence.  Ideal: re-coercing a stored (hence conforming) value   *)
(* returns it unchanged.  As built (class C20-union-order): at a union      *)
(* position the members are tried in declaration order and the FIRST one    *)
(* that takes the value wins, even when the value already is an instance of *)
(* a later member; a member failing with anything but a TypeError aborts    *)
(* the whole coercion.  What a single member does with a component is an    *)
(* observation (mw: member-wise table  [p = position path, acc, abort, r]); *)
(* the prediction composes those along the structure of the type.           *)
(* ------------------------------------------------------------------------ *)
Rej == [acc |-> FALSE, r |-> NoneV]
Acc(r) == [acc |-> TRUE, r |-> r]
MwAt(mw, p) == { i \in 1..Len(mw) : mw[i].p = p }

RECURSIVE ReAsBuilt(_, _, _, _)
RECURSIVE ReItems(_, _, _, _, _)
ReItems(ts, xs, p, mw, n) ==      \* items n..Len(xs); ts = <<t>> (homogeneous) or one type per item
  IF n > Len(xs) THEN Acc(<<>>)
  ELSE LET h == ReAsBuilt(IF Len(ts) = 1 THEN ts[1] ELSE ts[n], xs[n], Append(p, n), mw)
           tl == ReItems(ts, xs, p, mw, n + 1)
       IN IF h.acc /\ tl.acc THEN Acc(<<h.r>> \o tl.r) ELSE Rej
ReAsBuilt(t, c, p, mw) ==
  CASE t.k = "union" ->
         LET cands == { i \in 1..Len(t.args) :
                          \E e \in MwAt(mw, Append(p, i)) : mw[e].acc \/ mw[e].abort }
         IN IF cands = {} THEN Rej
            ELSE LET e == CHOOSE e \in MwAt(mw, Append(p, Min(cands))) : TRUE
                 IN IF mw[e].abort THEN Rej ELSE Acc(mw[e].r)
    [] t.k \in {"list", "multi", "tuplev", "set"} ->
         LET xs == ReItems(<<t.args[1]>>, c.items, p, mw, 1)
         IN IF xs.acc THEN Acc(V(c.k, c.c, xs.r)) ELSE Rej
    [] t.k = "tuple" ->
         LET xs == ReItems(t.args, c.items, p, mw, 1)
         IN IF xs.acc THEN Acc(V(c.k, c.c, xs.r)) ELSE Rej
    [] t.k = "dict" ->
         LET xs == ReItems(<<t.args[1]>>, [i \in 1..Len(c.items) |-> c.items[i].items[2]], p, mw, 1)
         IN IF xs.acc
              THEN Acc(V(c.k, c.c, [i \in 1..Len(c.items) |-> Pair(c.items[i].items[1], xs.r[i])]))
              ELSE Rej
    [] OTHER -> Acc(c)

RECURSIVE HasUnion(_)
HasUnion(t) == t.k = "union" \/ \E i \in 1..Len(t.args) : HasUnion(t.args[i])

(* ------------------------------------------------------------------------ *)
(* The type grammar (bounded).  A = atoms used at depth 1, C = atoms the     *)
(* depth-2 types are built from, C2 = atoms paired with a depth-1 type in   *)
(* depth-2 unions / pairs.                                                   *)
(* ------------------------------------------------------------------------ *)
Atoms(A) == { Atom(k) : k \in A }
NN(A)    == { Atom(k) : k \in A \ {"none"} }

Unary(ks, X) == { Ty(k, <<x>>) : k \in ks, x \in X }
D1(A) ==
  { Opt(a) : a \in NN(A) }
  \cup { Ty("union", <<p[1], p[2]>>) : p \in { q \in NN(A) \X NN(A) : q[1] # q[2] } }
  \cup Unary({"list", "tuplev", "dict", "set", "multi"}, NN(A))
  \cup { Ty("tuple", <<a, b>>) : a, b \in NN(A) }

RECURSIVE Hashable(_)
Hashable(t) == /\ t.k \notin {"list", "multi", "dict", "set"}
               /\ \A i \in 1..Len(t.args) : Hashable(t.args[i])

IsOpt(t) == t.k = "union" /\ t.args[Len(t.args)] = TNone
D2(C, C2) ==
  LET X  == D1(C)
      XC == { x \in X : x.k # "union" }
  IN { Opt(x) : x \in { y \in X : ~IsOpt(y) } }
     \cup Unary({"list", "tuplev", "dict", "multi"}, X)
     \cup Unary({"set"}, { x \in X : Hashable(x) })
     \cup { Ty("union", <<a, x>>) : a \in NN(C2), x \in XC }
     \cup { Ty("union", <<x, a>>) : a \in NN(C2), x \in XC }
     \cup { Ty("tuple", <<a, x>>) : a \in NN(C2), x \in XC }

(* a slice of depth 3: Optional / Union-with-None around two-level containers (the shapes in which a    *)
(* shallow "already an instance" test differs from a full one)                                         *)
D3opt ==
  LET inner == Unary({"list", "tuplev"}, {Atom("int"), Atom("str")})
                 \cup { Ty("tuple", <<Atom("int"), Atom("int")>>) }
      two   == Unary({"list", "dict", "tuplev"}, inner)
  IN { Opt(x) : x \in two } \cup { Ty("union", <<x, Atom("bool")>>) : x \in two }

TypesUpTo(depth, A, C, C2) ==
  Atoms(A) \cup D1(A) \cup (IF depth >= 2 THEN D2(C, C2) ELSE {})

RECURSIVE WellFormedType(_)
WellFormedType(t) ==
  /\ t.k \in AtomKinds \cup {"union", "list", "tuplev", "set", "multi", "dict", "tuple"}
  /\ (t.k \in AtomKinds => t.args = <<>>)
  /\ (t.k \in {"list", "tuplev", "set", "multi", "dict"} => Len(t.args) = 1)
  /\ (t.k \in {"union", "tuple"} => Len(t.args) >= 2)
  /\ (t.k = "set" => Hashable(t.args[1]))
  /\ \A i \in 1..Len(t.args) : WellFormedType(t.args[i])

(* ------------------------------------------------------------------------ *)
(* The value menu of C20: drawn from outside as well as from inside types.  *)
(* ------------------------------------------------------------------------ *)
AtomValues ==
  { I(0), I(1), I(2), B(TRUE), B(FALSE), F(15), F(10),
    S(<<>>), S(ca), S(cab), S(cf), S(cd), Y(cab), Y(<<>>), NoneV,
    P(cf), P(ca), FileV, DirV }
Elems     == { I(1), B(TRUE), F(15), S(ca), S(cab), NoneV, P(cf), FileV }
ElemPairs == { <<I(1), I(2)>>, <<S(ca), S(cab)>>, <<I(1), S(ca)>>, <<I(1), B(TRUE)>>, <<I(1), F(15)>> }
SeqValues == UNION { { V(k, <<>>, <<>>) } \cup { V(k, <<>>, <<e>>) : e \in Elems } \cup { V(k, <<>>, p) : p \in ElemPairs }
                     : k \in {"list", "tuple"} }
SetValues == { St(<<>>), St(<<I(1)>>), St(<<F(15)>>), St(<<S(ca)>>), St(<<FileV>>), St(<<NoneV>>),
               St(<<I(1), I(2)>>), St(<<S(ca), S(cab)>>), St(<<I(1), S(ca)>>) }
DictValues == { D(<<>>), D(<<Pair(I(1), I(1))>>), D(<<Pair(S(ck), I(1)), Pair(S(cj), I(2))>>) }
              \cup { D(<<Pair(S(ck), e)>>) : e \in { I(1), S(ca), F(15), NoneV, FileV, B(TRUE) } }
Inner == { L(<<I(1)>>), L(<<I(1), I(2)>>), L(<<S(ca)>>), L(<<I(1), S(ca)>>), T(<<I(1), I(2)>>), T(<<S(ca)>>),
           L(<<>>), D(<<Pair(S(ck), I(1))>>), St(<<I(1)>>), L(<<NoneV>>), L(<<F(15)>>), L(<<FileV>>), L(<<P(cf)>>) }
Nested == UNION { { V(k, <<>>, <<c>>) : c \in Inner }
                  \cup { V(k, <<>>, <<L(<<I(1)>>), L(<<I(2)>>)>>), V(k, <<>>, <<L(<<I(1)>>), I(1)>>) }
                  : k \in {"list", "tuple"} }
          \cup { D(<<Pair(S(ck), c)>>) : c \in Inner }
Menu == AtomValues \cup SeqValues \cup SetValues \cup DictValues \cup Nested

RECURSIVE WellFormedValue(_)
WellFormedValue(v) ==
  /\ v.k \in {"int", "bool", "float", "str", "bytes", "path", "file", "dir", "none",
              "list", "tuple", "set", "dict", "pair", "other"}
  /\ (v.k \in {"int", "bool", "float"} => Len(v.c) = 1)
  /\ (v.k \notin {"list", "tuple", "set", "dict", "pair"} => v.items = <<>>)
  /\ (v.k = "pair" => Len(v.items) = 2)
  /\ (v.k = "dict" => \A i \in 1..Len(v.items) : v.items[i].k = "pair")
  /\ (v.k = "set" => \A i, j \in 1..Len(v.items) : i # j => PyDistinct(v.items[i], v.items[j]))
  /\ \A i \in 1..Len(v.items) : WellFormedValue(v.items[i])
=============================================================================
