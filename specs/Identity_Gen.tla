---------------------------- MODULE Identity_Gen ----------------------------
(* Mode M2: TLC enumerates the value terms of the C07/C08 grammar to depth 2  *)
(* over a handful of atoms; one initial state per term.  The term is printed  *)
(* as JSON; the driver materialises it as a real Python value (in several     *)
(* insertion orders / processes / seeds), hashes it with the real pydra and   *)
(* logs (term-of-the-real-value, configuration, digest) for Identity_Trace.   *)
(* Theorems: sanity of the key construction over the whole enumeration.       *)
EXTENDS Identity, Json, SequencesExt, FiniteSetsExt
CONSTANTS Family,     \* "d1" | "d2seq" | "d2set" | "d2dict" | "ext" | "array" | "all"
          NAtoms,     \* depth-1 containers range over the first NAtoms atoms
          NSmall,     \* depth-2 containers range over the first NSmall atoms and their depth-1 containers
          MaxLen1,    \* max number of children of a depth-1 container
          MaxLenS,    \* max number of children of the depth-1 containers nested inside depth-2 terms
          MaxLen2,    \* max number of children of a depth-2 sequence
          ArrSizes    \* set of element counts for arrays

VARIABLES term
gvars == <<term, ivars>>

A(kind, val) == [k |-> kind, v |-> val]
(* the handful of atoms; 1 / 1.0 / True / "1" / b"1" are the type-confusable ones *)
AtomList == << A("int", "1"), A("str", "a"), A("float", "1.0"), A("str", "b"), A("bool", "True"),
               A("str", "1"), A("bytes", "31"), A("none", "None"), A("int", "2"), A("str", "c") >>
Atoms(n) == { AtomList[i] : i \in 1..n }

(* Python equality class of an atom (1 == 1.0 == True collapse inside a set / as dict keys) and the  *)
(* class within which Python's "<" is defined (needed because the statement's grammar has no sets    *)
(* of mutually unorderable elements: pydra documents that such values cannot be hashed)              *)
PyClass(a)   == IF a \in {A("int", "1"), A("float", "1.0"), A("bool", "True")} THEN "one" ELSE a.k \o ":" \o a.v
SortClass(a) == IF a.k \in {"int", "float", "bool"} THEN "num" ELSE a.k
ValidKeySet(s) == /\ \A x, y \in s : x # y => PyClass(x) # PyClass(y)
                  /\ \A x, y \in s : SortClass(x) = SortClass(y)
                  /\ \A x \in s : x.k = "none" => Cardinality(s) = 1

SeqsUpTo(S, n) == UNION { [1..m -> S] : m \in 0..n }
SetsUpTo(S, n) == { s \in SUBSET S : Cardinality(s) <= n }

(* depth-1 containers over an atom set *)
D1Seq(At, n)  == { [k |-> kd, v |-> s] : kd \in {"list", "tuple"}, s \in SeqsUpTo(At, n) }
D1Set(At, n)  == { [k |-> kd, v |-> SetToSeq(s)] : kd \in {"set", "frozenset"},
                                                  s \in { x \in SetsUpTo(At, n) : ValidKeySet(x) } }
D1Dict(At, Vals, n) ==
  UNION { { [k |-> "dict", v |-> [i \in 1..Len(ks) |-> <<ks[i], f[i]>>]] : f \in [1..Len(ks) -> Vals] }
          : ks \in { SetToSeq(x) : x \in { y \in SetsUpTo(At, n) : ValidKeySet(y) } } }
D1(At, n) == D1Seq(At, n) \cup D1Set(At, n) \cup D1Dict(At, At, n)

Small   == Atoms(NSmall)
SmallD1 == D1(Small, MaxLenS)
Strs    == { a \in Atoms(NAtoms) : a.k = "str" }

(* frozensets of strings, and sets / frozensets of those (the partial-order case) *)
StrFs  == { [k |-> "frozenset", v |-> SetToSeq(s)] : s \in { x \in SUBSET Strs : Cardinality(x) \in 1..2 } }
D2Set  == { [k |-> kd, v |-> SetToSeq(s)] : kd \in {"set", "frozenset"},
                                            s \in { x \in SUBSET StrFs : Cardinality(x) \in 2..3 } }
D2Seq  == { [k |-> kd, v |-> s] : kd \in {"list", "tuple"},
                                  s \in { q \in SeqsUpTo(Small \cup SmallD1, MaxLen2) :
                                            Len(q) >= 1 /\ \E i \in 1..Len(q) : q[i] \in SmallD1 } }
D2Dict == LET Keys == { a \in Small : a.k = "str" } IN
          { [k |-> "dict", v |-> [i \in 1..Len(ks) |-> <<ks[i], f[i]>>]] :
              ks \in { SetToSeq(x) : x \in (SUBSET Keys) \ {{}} }, f \in UNION { [1..m -> SmallD1] : m \in 1..Cardinality(Keys) } }

(* extended atoms: types, functions, objects, paths -- names refer to the pool in harness/identity_common.py *)
Ty(name, origin, alias) == [k |-> "type", v |-> name, origin |-> origin, alias |-> alias]
TypeAtoms == { Ty(n, n, "none") : n \in {"int", "float", "str", "bool", "bytes", "list", "dict", "tuple", "Path", "P1", "Q1", "File"} }
        \cup { Ty("list[int]", "list", "builtin"), Ty("list[str]", "list", "builtin"), Ty("dict[str,int]", "dict", "builtin"),
               Ty("dict[str,str]", "dict", "builtin"), Ty("tuple[int,str]", "tuple", "builtin"), Ty("tuple[int,...]", "tuple", "builtin"),
               \* typing spellings: only such as have no PEP 585 / PEP 604 twin in the pool (whether two spellings of
               \* one type are "the same value" is not decided by the statement, so the pair is never generated)
               Ty("List[float]", "list", "typing"), Ty("Tuple[str,int]", "tuple", "typing"), Ty("Dict[int,str]", "dict", "typing"),
               Ty("int|str", "union", "union"), Ty("int|None", "union", "union"), Ty("Union[float,str]", "union", "typing") }
FuncNames == {"f_add1", "f_add2", "f_mul2", "f_neg", "f_kwd", "f_two"}
ObjClasses == {"P1", "P2", "Q1", "Q2", "S1", "S2"}
(* callables without Python-level state (pool in harness/identity_common.py: CFUNCS) and partial objects *)
CFuncs == { [k |-> "cfunc", cls |-> c, v |-> n] :
              <<c, n>> \in { <<"builtin", "math.sin">>, <<"builtin", "math.cos">>, <<"builtin", "len">>, <<"builtin", "abs">>,
                             <<"ufunc", "np.add">>, <<"ufunc", "np.multiply">>,
                             <<"method_descriptor", "str.upper">>, <<"method_descriptor", "str.lower">>,
                             <<"itemgetter", "itemgetter(0)">>, <<"itemgetter", "itemgetter(1)">>,
                             \* C-level value objects (no instance dictionary): their content is the value
                             <<"Decimal", "Decimal('1.5')">>, <<"Decimal", "Decimal('2.5')">>,
                             <<"array", "array('i', [1])">>, <<"array", "array('i', [2])">>,
                             <<"bytearray", "bytearray(b'a')">>, <<"bytearray", "bytearray(b'b')">>,
                             <<"deque", "deque([1])">>, <<"deque", "deque([2])">> } }
Partials == { [k |-> "partial", fn |-> [k |-> "func", v |-> f, cells |-> <<>>], v |-> <<x>>] :
                f \in {"f_kwd", "f_two"}, x \in Atoms(2) }
ExtAtoms ==
     TypeAtoms \cup CFuncs \cup Partials
  \cup { [k |-> "func", v |-> n, cells |-> <<>>] : n \in FuncNames }
  \cup { [k |-> "obj", cls |-> c, v |-> << <<"a", x>>, <<"b", y>> >>] : c \in ObjClasses, x \in Atoms(3), y \in Atoms(2) }
  \cup { [k |-> "path", cls |-> c, v |-> p] : c \in {"PosixPath", "PurePosixPath"}, p \in {"/a/b", "/a", "a/b"} }
  \cup { A("complex", "(1+2j)"), A("complex", "(1+0j)"), A("int", "1267650600228229401496703205376"),
         A("str", "1267650600228229401496703205376"), A("float", "-0.0"), A("float", "0.0"), A("int", "0"),
         A("bool", "False"), A("str", ""), A("bytes", ""), A("int", "-1"), A("ellipsis", "Ellipsis") }
Ext == ExtAtoms \cup { [k |-> kd, v |-> <<x>>] : kd \in {"list", "tuple"}, x \in ExtAtoms }

(* arrays: element count n, every factorisation into <= 2 axes, data patterns, dtypes *)
Shapes2(n) == { <<n>> } \cup { <<a, n \div a>> : a \in { d \in 1..n : n % d = 0 } }
DTypes == {"int64", "float64", "int32", "float32", "int8", "uint8", "bool",
           "i4,f4", "f4,i4"}      \* structured element types of equal size (fields f0, f1): all-zero arrays share their bytes
Lit(dt, b) == IF dt = "bool" THEN (IF b = 1 THEN "True" ELSE "False")
              ELSE IF dt \in {"float64", "float32"} THEN (IF b = 1 THEN "1.0" ELSE "0.0")
              ELSE (IF b = 1 THEN "1" ELSE "0")
Patterns(n) == { [i \in 1..n |-> 0], [i \in 1..n |-> 1], [i \in 1..n |-> IF i = 1 THEN 1 ELSE 0] }
Arrays == { [k |-> "ndarray", cls |-> "numpyndarray", dtype |-> dt, shape |-> sh,
             v |-> [i \in 1..Len(p) |-> Lit(dt, p[i])]] :
            dt \in DTypes, sh \in UNION { Shapes2(n) : n \in ArrSizes },
            p \in UNION { Patterns(n) : n \in ArrSizes } }
ArraysOK == { a \in Arrays : LET n == Len(a.v) IN
                (IF Len(a.shape) = 1 THEN a.shape[1] ELSE a.shape[1] * a.shape[2]) = n }
ArrTerms == ArraysOK \cup { [k |-> "list", v |-> <<x>>] : x \in { a \in ArraysOK : Len(a.v) = 2 } }

Terms == CASE Family = "d1"     -> Atoms(NAtoms) \cup D1(Atoms(NAtoms), MaxLen1)
           [] Family = "d2seq"  -> D2Seq
           [] Family = "d2set"  -> D2Set
           [] Family = "d2dict" -> D2Dict
           [] Family = "ext"    -> Ext
           [] Family = "array"  -> ArrTerms
           [] Family = "all"    -> Atoms(NAtoms) \cup D1(Atoms(NAtoms), MaxLen1) \cup D2Seq \cup D2Set \cup D2Dict
                                   \cup Ext \cup ArrTerms

Init == term \in Terms /\ IInit
Next == FALSE /\ UNCHANGED gvars

Emit == PrintT(ToJson(term))

(* spec-level theorems on every enumerated term *)
RECURSIVE Kids(_)
Kids(t) == CASE t.k \in {"list", "tuple", "set", "frozenset"} -> SeqRange(t.v)
             [] t.k = "dict" -> UNION { {p[1], p[2]} : p \in SeqRange(t.v) }
             [] t.k = "obj"  -> { p[2] : p \in SeqRange(t.v) }
             [] OTHER -> {}
RECURSIVE HasArray(_)
HasArray(t) == t.k = "ndarray" \/ \E c \in Kids(t) : HasArray(c)
RECURSIVE HasSetOfFs(_)
HasSetOfFs(t) == \/ (t.k \in {"set", "frozenset"} /\ \E c \in Kids(t) : c.k = "frozenset")
                 \/ \E c \in Kids(t) : HasSetOfFs(c)

Theorems ==
  /\ Canon(term) = CanonS(term, {})
  \* a switch changes the key only of the terms in the class it names
  /\ ~HasArray(term)   => CanonS(term, {"numpy-shape-dtype"}) = Canon(term)
  /\ ~HasSetOfFs(term) => CanonS(term, {"set-sorted-partial-order"}) = Canon(term)
  /\ CanonS(term, {"closure-value", "shell-field-metadata"}) = Canon(term)
  /\ (\A x \in {term} \cup Kids(term) : x.k # "type") => CanonS(term, {"generic-alias-args"}) = Canon(term)
  \* the model of Python's sort returns a permutation, and a sorted one where "<" decides
  /\ (term.k \in {"set", "frozenset"} /\ term.v # <<>> /\ \A c \in Kids(term) : c.k = "frozenset") =>
        LET E == [i \in 1..Len(term.v) |-> Canon(term.v[i]).v]
            p == PySortPerm(E) IN
        /\ { p[i] : i \in 1..Len(p) } = 1..Len(E)
        /\ \A a, b \in 1..Len(p) : a < b => ~PyLt(E[p[b]], E[p[a]]) \/ Len(E) > 2
=============================================================================
