SPECIFICATION Spec
CONSTANTS
  Defs <- D2
  Vectors <- V3
  MaxOps = 3
  BranchInputsMayBeLazy = FALSE
  KeyOnContentOnly = FALSE
INVARIANT Transparent
INVARIANT NoLeak

CHECK_DEADLOCK FALSE
