SPECIFICATION Spec
CONSTANTS
  Jobs <- JWf
  Parent <- PWf
  Failing <- FA
  SharedAuditId = FALSE
INVARIANT OneStartOneEndSameId
INVARIANT EndFlagMatchesResult
INVARIANT NoOrphanEnd
CHECK_DEADLOCK FALSE
