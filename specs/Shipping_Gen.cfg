SPECIFICATION Spec
INVARIANT Emit
