--------------------------- MODULE ShellArgv_Gen ---------------------------
(* Case generator (mode M2) for C22 / C23 / C24: one initial state per case;   *)
(* the case, the admissible argument vectors of the documented semantics and   *)
(* the named as-built prediction are printed as JSON; Theorems is checked on   *)
(* every enumerated case.                                                      *)
(*   Mode "one"    : every single-field definition of the menu x positions x    *)
(*                   values x append_args                                      *)
(*   Mode "two"    : every ordered pair of the reduced menu x position pairs    *)
(*   Mode "sample" : NSamples definitions of 2..4 fields drawn from the full   *)
(*                   menu by a seeded hash (Chars = TRUE: string elements are  *)
(*                   drawn from the character alphabet)                        *)
(*   Mode "chars"  : every string over Alphabet of length MinL..MaxL x every    *)
(*                   placement (C23)                                           *)
EXTENDS ShellArgv, Json
CONSTANTS Mode, Shard, NShards,
          Seed, NSamples, Chars,
          Alphabet, MinL, MaxL

VARIABLES def, vals, app
vars == << def, vals, app >>

(* ---- menu ---------------------------------------------------------------- *)
PosMenu   == {NoPos, 1, 2, -1, -2}
ListForms == { <<"none", FALSE>>, <<"bare", FALSE>>, <<"flag", FALSE>>, <<"flagtpl", FALSE>>,
               <<"eqtpl", FALSE>>, <<"flag", TRUE>>, <<"flagtpl", TRUE>> }
Shape(k, fm, r, s) == [kind |-> k, form |-> fm, rep |-> r, sep |-> s]
Shapes ==
       { Shape("bool", fm, FALSE, SP) : fm \in {"none", "flag"} }
  \cup { Shape(k, fm, FALSE, SP) : k \in ScalarKinds, fm \in {"none", "bare", "flag", "flagtpl", "eqtpl"} }
  \cup { Shape(k, fr[1], fr[2], s) : k \in {"list", "multi"}, fr \in ListForms, s \in {SP, COMMA} }

Field(sh, id, opt, pos) ==
  [id |-> id, kind |-> sh.kind, opt |-> opt, form |-> sh.form, rep |-> sh.rep, sep |-> sh.sep, pos |-> pos]

Val(k, es, z) == [k |-> k, es |-> es, z |-> z]
Digit(n)      == 48 + n
StrV(id)      == << 118, Digit(id) >>            \* "v1"
ElA(id)       == << 97, Digit(id) >>             \* "a1"
ElB(id)       == << 98, Digit(id) >>             \* "b1"
BaseValues(kind, id) ==
  CASE kind = "bool"  -> { Val("true", << >>, FALSE), Val("false", << >>, TRUE) }
    [] kind = "str"   -> { Val("scalar", << StrV(id) >>, FALSE), Val("scalar", << << >> >>, TRUE) }
    [] kind = "int"   -> { Val("scalar", << << Digit(1), Digit(id) >> >>, FALSE),        \* 11..14
                           Val("scalar", << << Digit(0) >> >>, TRUE) }                     \* 0
    [] kind = "float" -> { Val("scalar", << << Digit(id), 46, Digit(5) >> >>, FALSE),     \* 1.5 ..
                           Val("scalar", << << Digit(0), 46, Digit(0) >> >>, TRUE) }       \* 0.0
    [] kind = "file"  -> { Val("scalar", << << DirCode, 102, Digit(id) >> >>, FALSE) }    \* <dir>/f1
    [] kind = "list"  -> { Val("list", << ElA(id), ElB(id) >>, FALSE), Val("list", << ElA(id) >>, FALSE),
                           Val("list", << >>, TRUE) }
    [] kind = "multi" -> { Val("list", << ElA(id), ElB(id) >>, FALSE), Val("list", << ElA(id) >>, FALSE),
                           Val("list", << >>, TRUE), Val("single", << ElA(id) >>, FALSE) }
ValuesFor(kind, opt, id) ==
  BaseValues(kind, id) \cup (IF opt THEN { Val("unset", << >>, TRUE), Val("none", << >>, TRUE) } ELSE {})

(* menu entries of field number id: [f (without position), v] *)
Entry(sh, id, opt, v) == [f |-> Field(sh, id, opt, NoPos), v |-> v]
FullMenu(id) == UNION { { Entry(sh, id, opt, v) : v \in ValuesFor(sh.kind, opt, id) }
                        : sh \in Shapes, opt \in BOOLEAN }

(* reduced menu for the exhaustive two-field space: one representative per      *)
(* contribution / omission class                                                 *)
ReducedMenu(id) ==
  { Entry(Shape("bool", "flag", FALSE, SP), id, FALSE, Val("true", << >>, FALSE)),
    Entry(Shape("bool", "flag", FALSE, SP), id, FALSE, Val("false", << >>, TRUE)),
    Entry(Shape("str", "flag", FALSE, SP), id, FALSE, Val("scalar", << StrV(id) >>, FALSE)),
    Entry(Shape("str", "flag", FALSE, SP), id, TRUE, Val("none", << >>, TRUE)),
    Entry(Shape("str", "bare", FALSE, SP), id, FALSE, Val("scalar", << StrV(id) >>, FALSE)),
    Entry(Shape("str", "none", FALSE, SP), id, FALSE, Val("scalar", << StrV(id) >>, FALSE)),
    Entry(Shape("int", "flagtpl", FALSE, SP), id, FALSE, Val("scalar", << << Digit(0) >> >>, TRUE)),
    Entry(Shape("int", "flag", FALSE, SP), id, FALSE, Val("scalar", << << Digit(0) >> >>, TRUE)),
    Entry(Shape("int", "bare", FALSE, SP), id, FALSE, Val("scalar", << << Digit(1), Digit(id) >> >>, FALSE)),
    Entry(Shape("float", "eqtpl", FALSE, SP), id, TRUE, Val("scalar", << << Digit(id), 46, Digit(5) >> >>, FALSE)),
    Entry(Shape("file", "bare", FALSE, SP), id, FALSE, Val("scalar", << << DirCode, 102, Digit(id) >> >>, FALSE)),
    Entry(Shape("list", "flag", FALSE, SP), id, FALSE, Val("list", << ElA(id), ElB(id) >>, FALSE)),
    Entry(Shape("list", "flag", FALSE, COMMA), id, FALSE, Val("list", << ElA(id), ElB(id) >>, FALSE)),
    Entry(Shape("list", "flagtpl", TRUE, SP), id, FALSE, Val("list", << ElA(id), ElB(id) >>, FALSE)),
    Entry(Shape("multi", "flag", TRUE, SP), id, FALSE, Val("list", << ElA(id), ElB(id) >>, FALSE)),
    Entry(Shape("multi", "flag", TRUE, SP), id, TRUE, Val("list", << >>, TRUE)) }

AppMenu == { << >>, << << 122, 49 >>, << 122, 50 >> >> }        \* [], ["z1", "z2"]

WithPos(e, p) == [e.f EXCEPT !.pos = p]

(* ---- seeded hash sampling -------------------------------------------------- *)
M == 2147483
Mix(h, x)  == ((h * 613) + x + 1) % M
H(k, slot) == Mix(Mix(Mix(Mix(Seed % M, k), slot), k + 7 * slot), 17)
Menu1 == SetToSeq(FullMenu(1))
Menu2 == SetToSeq(FullMenu(2))
Menu3 == SetToSeq(FullMenu(3))
Menu4 == SetToSeq(FullMenu(4))
MenuSeq(id) == CASE id = 1 -> Menu1 [] id = 2 -> Menu2 [] id = 3 -> Menu3 [] id = 4 -> Menu4
PosSeq  == << NoPos, 1, 2, -1, -2, NoPos, 3 >>
AlphaSeq == SetToSeq(Alphabet)

SampleStr(h) ==   \* a string of length 1..3 over the alphabet
  LET n == (h % 3) + 1 IN
  [j \in 1..n |-> AlphaSeq[(Mix(h, j) % Len(AlphaSeq)) + 1]]

Recode(v, h) ==   \* replace the string elements of a value by alphabet strings
  IF Chars /\ v.k \in {"scalar", "list", "single"} /\ v.es # << >> /\ ~v.z
  THEN [v EXCEPT !.es = [j \in 1..Len(v.es) |-> SampleStr(Mix(h, 31 * j))]]
  ELSE v

SampleCase(k) ==
  LET n    == 2 + (H(k, 0) % 3)
      ent  == [i \in 1..n |-> LET ms == MenuSeq(i) IN ms[(H(k, i) % Len(ms)) + 1]]
      raw  == [i \in 1..n |-> PosSeq[(H(k, 10 + i) % Len(PosSeq)) + 1]]
      pos  == [i \in 1..n |-> IF \E j \in 1..(i - 1) : raw[j] = raw[i] THEN NoPos ELSE raw[i]]
      strk == [i \in 1..n |-> ent[i].f.kind \in {"str", "list", "multi"}]
  IN  [ def  |-> [i \in 1..n |-> WithPos(ent[i], pos[i])],
        vals |-> [i \in 1..n |-> IF strk[i] THEN Recode(ent[i].v, H(k, 20 + i)) ELSE ent[i].v],
        app  |-> LET a == H(k, 40) % 3 IN
                 IF a = 0 THEN << >>
                 ELSE IF Chars THEN [j \in 1..a |-> SampleStr(H(k, 40 + j))]
                 ELSE SubSeq(<< << 122, 49 >>, << 122, 50 >> >>, 1, a) ]

(* ---- strings and placements (C23) ------------------------------------------ *)
RECURSIVE StringsOfLen(_)
StringsOfLen(n) == IF n = 0 THEN { << >> }
                   ELSE { << c >> \o t : c \in Alphabet, t \in StringsOfLen(n - 1) }
Strings == UNION { StringsOfLen(n) : n \in MinL..MaxL }
RECURSIVE SumSeq(_)
SumSeq(s) == IF s = << >> THEN 0 ELSE Head(s) + SumSeq(Tail(s))
MyStrings == { s \in Strings : (SumSeq(s) + Len(s)) % NShards = Shard }

Placements == {"bare", "flag", "flagtpl", "eqtpl", "listsep", "listsp", "listrep", "multirep", "path", "append"}
Placed(p, s) ==
  LET one(f, v) == [def |-> << f >>, vals |-> << v >>, app |-> << >>]
      str(fm)   == one(Field(Shape("str", fm, FALSE, SP), 1, FALSE, NoPos), Val("scalar", << s >>, FALSE))
      lst(k, r, sp) == one(Field(Shape(k, "flag", r, sp), 1, FALSE, NoPos), Val("list", << s, ElB(1) >>, FALSE))
  IN CASE p = "bare"     -> str("bare")
       [] p = "flag"     -> str("flag")
       [] p = "flagtpl"  -> str("flagtpl")
       [] p = "eqtpl"    -> str("eqtpl")
       [] p = "listsep"  -> lst("list", FALSE, COMMA)
       [] p = "listsp"   -> lst("list", FALSE, SP)
       [] p = "listrep"  -> lst("list", TRUE, SP)
       [] p = "multirep" -> lst("multi", TRUE, SP)
       [] p = "path"     -> one(Field(Shape("file", "bare", FALSE, SP), 1, FALSE, NoPos),
                                Val("scalar", << << DirCode >> \o s >>, FALSE))
       [] p = "append"   -> [def |-> << >>, vals |-> << >>, app |-> << s >>]

(* ---- the enumerated space --------------------------------------------------- *)
OneCases ==
  { [def |-> << WithPos(e, p) >>, vals |-> << e.v >>, app |-> a] : e \in FullMenu(1), p \in PosMenu, a \in AppMenu }
TwoCases ==
  { [def |-> << WithPos(e1, p1), WithPos(e2, p2) >>, vals |-> << e1.v, e2.v >>, app |-> << >>] :
      e1 \in ReducedMenu(1), e2 \in ReducedMenu(2), p1 \in PosMenu, p2 \in PosMenu }

InShard(n) == n % NShards = Shard
Cases ==
  CASE Mode = "one"    -> LET cs == SetToSeq(OneCases) IN { cs[i] : i \in { j \in 1..Len(cs) : InShard(j) } }
    [] Mode = "two"    -> LET cs == SetToSeq({ c \in TwoCases : DistinctPositions(c.def) })
                          IN { cs[i] : i \in { j \in 1..Len(cs) : InShard(j) } }
    [] Mode = "sample" -> { SampleCase(k) : k \in { j \in 1..NSamples : InShard(j) } }
    [] Mode = "chars"  -> { Placed(p, s) : p \in Placements, s \in MyStrings }

Init == \E c \in Cases : def = c.def /\ vals = c.vals /\ app = c.app
Next == FALSE /\ UNCHANGED vars

(* ---- output -------------------------------------------------------------------- *)
Adm == Argv(def, vals, app)
AB  == AsBuilt(def, vals, app)
Case ==
  [ def     |-> def,
    vals    |-> vals,
    app     |-> app,
    adm     |-> SetToSeq(Adm),
    asbuilt |-> AB,
    explain |-> Explain(def, vals, app),
    open    |-> SetToSeq(UNION { OpenPoints(def[i], vals[i]) : i \in Idx(def) }),
    nogap   |-> NoGap(def) ]
Emit == PrintT(ToJson(Case))

(* ---- spec-level theorems, evaluated on every enumerated case ------------------- *)
IsPerm(s, n) == Len(s) = n /\ Range(s) = 1..n
Plain == \* no value needs any of the named deviations
  /\ FieldClasses(def, vals) = {}
  /\ \A i \in Idx(def) : ~(def[i].kind \in ScalarKinds /\ vals[i].z /\ ~Absent(vals[i]))
Theorems ==
  /\ DistinctPositions(def)
  /\ IsPerm(IdealOrder(def), Len(def)) /\ IsPerm(AsBuiltOrder(def), Len(def))
  /\ Adm # {}
  /\ \A a \in Adm : a[1] = EXE
  /\ Intact(def, vals, app)
     \* without gaps the slot numbering is the documented order
  /\ (NoGap(def) /\ ~AsBuiltRejects(def)) => AsBuiltOrder(def) = IdealOrder(def)
     \* on the plain fragment without gaps the as-built model coincides with the documented semantics
  /\ (Plain /\ NoGap(def) /\ ~AsBuiltRejects(def)) => (AB.err = "" /\ AB.argv \in Adm)
     \* the explanation is total
  /\ Explain(def, vals, app) # "unexplained"
=============================================================================
