---------------------------- MODULE Submitter_Gen ----------------------------
(* Mode M3: schedules.  h records the order in which job bodies end; TLC (BFS   *)
(* over paths / -simulate) emits, for every terminated behaviour, the graph,    *)
(* the limit, the failing jobs, the completion order and the spec's outcome.    *)
EXTENDS Submitter, Json
VARIABLE h
GInit == Init /\ h = <<>>
GNext == \/ (LoopStep /\ UNCHANGED h)
         \/ \E j \in Jobs : \/ (WorkerStart(j) /\ UNCHANGED h)
                            \/ (WorkerFinish(j) /\ UNCHANGED h)
                            \/ (WorkerReturn(j) /\ UNCHANGED h)
                            \/ (WorkerBodyEnd(j) /\ h' = Append(h, j))
GSpec == GInit /\ [][GNext]_<<vars, h>>
JobSeq(S) == LET RECURSIVE F(_) F(T) == IF T = {} THEN <<>> ELSE LET x == CHOOSE y \in T : TRUE IN <<x>> \o F(T \ {x}) IN F(S)
Emit == (Terminated /\ pending = {}) =>
          PrintT(ToJson([graph |-> g, K |-> K, fails |-> JobSeq(fails), order |-> h, outcome |-> loop,
                         errors |-> JobSeq(errors), ran |-> JobSeq({j \in Jobs : w[j] # "idle"})]))
=============================================================================
