SPECIFICATION Spec
CONSTANTS
  Defs <- D1
  Vectors <- V3
  MaxOps = 3
  BranchInputsMayBeLazy = FALSE
  KeyOnContentOnly = FALSE
INVARIANT Transparent
INVARIANT NoLeak
INVARIANT Emit
CHECK_DEADLOCK FALSE
