SPECIFICATION Spec
CONSTANTS
  Defs <- DF
  Vectors <- VF
  MaxOps = 3
  BranchInputsMayBeLazy = FALSE
  KeyOnContentOnly = FALSE
INVARIANT Transparent
INVARIANT NoLeak

CHECK_DEADLOCK FALSE
