SPECIFICATION Spec
CONSTANTS
  Jobs <- JWf
  Parent <- PWf
  Failing <- FNone
  SharedAuditId = TRUE
INVARIANT OneStartOneEndSameId
INVARIANT EndFlagMatchesResult
INVARIANT NoOrphanEnd
CHECK_DEADLOCK FALSE
