SPECIFICATION Spec
CONSTANTS
  Graphs <- Small
  Ks <- KNone
  FailChoices = "any"
  SliceIgnoresRunning = FALSE
  RunningLoopRaises = TRUE
CHECK_DEADLOCK FALSE
INVARIANT IndependentJobsRun
INVARIANT NeverCrashes
