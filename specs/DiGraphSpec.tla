----------------------------- MODULE DiGraphSpec -----------------------------
(***************************************************************************)
(* The workflow graph as a state machine (property C37).                   *)
(*                                                                         *)
(* Written from the property statement and the doc-strings of              *)
(* pydra/engine/graph.py: a graph holds nodes and directed connections;    *)
(* nodes and connections are added one by one or in lists; a node whose    *)
(* predecessors are all gone can be REMOVED (it is "sent to run": it       *)
(* leaves the node list but its outgoing connections stay until the task   *)
(* is done - such a node is "work in progress", wip); REMOVING ITS         *)
(* CONNECTIONS completes the removal; when a task fails, the node's        *)
(* connections and ALL NODES THAT FOLLOW IT are removed.  The graph keeps  *)
(* a sorted node list.                                                     *)
(*                                                                         *)
(* The statement: whatever the history, `sorted` contains every remaining  *)
(* node exactly once and places every node after all of its (remaining)    *)
(* predecessors.  The spec is abstract: each step may pick ANY valid order *)
(* (operator Orders); the implementation's particular choice is not        *)
(* prescribed.  Nodes are the integers 1..N.                               *)
(***************************************************************************)
EXTENDS Naturals, Sequences, FiniteSets, TLC

CONSTANT N                     \* nodes are 1..N
Node == 1..N

VARIABLES nodes,    \* nodes currently in the graph
          edges,    \* set of connections <<from, to>>
          wip,      \* removed nodes whose connections are still in place
          sorted    \* the sorted node list (a sequence)
gvars == <<nodes, edges, wip>>
vars  == <<nodes, edges, wip, sorted>>

(* ------------------------------------------------------------------ orders *)
Range(s) == { s[i] : i \in DOMAIN s }
Pos(s, x) == CHOOSE i \in DOMAIN s : s[i] = x

(* s lists every node of ns exactly once and respects every connection      *)
(* between two nodes of ns (connections leaving wip nodes do not constrain) *)
IsValidOrder(s, ns, es) ==
  /\ Len(s) = Cardinality(ns)
  /\ Range(s) = ns
  /\ \A e \in es : (e[1] \in ns /\ e[2] \in ns) => Pos(s, e[1]) < Pos(s, e[2])

Perms(S) == { s \in [1..Cardinality(S) -> S] : \A i, j \in DOMAIN s : i # j => s[i] # s[j] }
ValidOrders(ns, es) == { s \in Perms(ns) : IsValidOrder(s, ns, es) }

(* deterministic representative (used by the behaviour generator only):     *)
(* repeatedly take the smallest node none of whose predecessors remain      *)
RECURSIVE CanonFrom(_, _)
CanonFrom(ns, es) ==
  IF ns = {} THEN <<>>
  ELSE LET ready == { n \in ns : ~\E e \in es : e[2] = n /\ e[1] \in ns }
           m == CHOOSE n \in ready : \A k \in ready : n <= k
       IN <<m>> \o CanonFrom(ns \ {m}, es)
CanonOrders(ns, es) == { CanonFrom(ns, es) }

(* the set an implementation may choose the new sorted list from *)
Orders(ns, es) == ValidOrders(ns, es)

(* ------------------------------------------------------------------ reachability *)
Succ(es, S) == { e[2] : e \in { f \in es : f[1] \in S } }
RECURSIVE Closure(_, _)
Closure(es, S) == LET T == S \cup Succ(es, S) IN IF T = S THEN S ELSE Closure(es, T)
Descendants(es, n) == Closure(es, Succ(es, {n}))            \* nodes that follow n
Reaches(es, a, b)  == b \in Closure(es, {a})                 \* a = b or a path a ~> b
Acyclic(es) == \A e \in es : ~Reaches(es, e[2], e[1])
Preds(es, n) == { e[1] : e \in { f \in es : f[2] = n } }

(* ------------------------------------------------------------------ actions *)
Init == nodes = {} /\ edges = {} /\ wip = {} /\ sorted = <<>>

Resort == sorted' \in Orders(nodes', edges')

DistinctSeq(s) == \A i, j \in DOMAIN s : i # j => s[i] # s[j]

(* add_nodes([...]) : new nodes, not in the graph and not work in progress *)
AddNodes(ns) ==
  /\ ns # <<>> /\ DistinctSeq(ns)
  /\ \A i \in DOMAIN ns : ns[i] \in Node \ (nodes \cup wip)
  /\ nodes' = nodes \cup Range(ns)
  /\ UNCHANGED <<edges, wip>>
  /\ Resort

(* add_edges([...]) : new connections between nodes of the graph that keep it acyclic *)
AddEdges(es) ==
  /\ es # <<>> /\ DistinctSeq(es)
  /\ \A i \in DOMAIN es : /\ es[i][1] \in nodes /\ es[i][2] \in nodes
                          /\ es[i][1] # es[i][2] /\ es[i] \notin edges
  \* no new connection closes a cycle (the graph so far is acyclic: AcyclicInv)
  /\ \A i \in DOMAIN es : ~Reaches(edges \cup Range(es), es[i][2], es[i][1])
  /\ edges' = edges \cup Range(es)
  /\ UNCHANGED <<nodes, wip>>
  /\ Resort

(* remove_nodes([...]) : nodes without predecessors are sent to run *)
RemoveNodes(ns) ==
  /\ ns # <<>> /\ DistinctSeq(ns)
  /\ \A i \in DOMAIN ns : ns[i] \in nodes /\ Preds(edges, ns[i]) = {}
  /\ nodes' = nodes \ Range(ns)
  /\ wip' = wip \cup Range(ns)
  /\ UNCHANGED edges
  /\ Resort

(* remove_nodes_connections([...]) : the tasks are done *)
RemoveConnections(ns) ==
  /\ ns # <<>> /\ DistinctSeq(ns)
  /\ Range(ns) \subseteq wip
  /\ edges' = { e \in edges : e[1] \notin Range(ns) }
  /\ wip' = wip \ Range(ns)
  /\ UNCHANGED nodes
  /\ Resort

(* remove_successors_nodes(n) : the task failed; everything that follows it goes *)
RemoveSuccessors(n) ==
  /\ n \in wip
  /\ LET d == Descendants(edges, n) IN
       /\ nodes' = nodes \ d
       /\ edges' = { e \in edges : e[1] # n /\ e[2] \notin d }
  /\ wip' = wip \ {n}
  /\ Resort

(* sorting() : an explicit re-sort *)
Sort == UNCHANGED gvars /\ Resort

(* copy() : work continues on a copy of the graph *)
Copy == UNCHANGED gvars /\ sorted' = sorted

Seqs1to2(S) == { <<a>> : a \in S } \cup { <<a, b>> : a \in S, b \in S }
Pairs == { <<a, b>> : a \in Node, b \in Node }

Next == \/ \E ns \in Seqs1to2(Node) : AddNodes(ns) \/ RemoveNodes(ns) \/ RemoveConnections(ns)
        \/ \E es \in Seqs1to2(Pairs) : AddEdges(es)
        \/ \E n \in Node : RemoveSuccessors(n)
        \/ Sort
        \/ Copy

Spec == Init /\ [][Next]_vars

(* ------------------------------------------------------------------ invariants *)
TypeOK == /\ nodes \subseteq Node /\ wip \subseteq Node /\ nodes \cap wip = {}
          /\ edges \subseteq (nodes \cup wip) \X nodes

(* C37 *)
SortedValid == IsValidOrder(sorted, nodes, edges)

(* the guards keep the graph acyclic, so a valid order always exists and no  *)
(* step can block for lack of one                                            *)
AcyclicInv    == Acyclic(edges)
OrderExists   == ValidOrders(nodes, edges) # {}
(* a node that is work in progress has no predecessor left *)
WipReady      == \A n \in wip : Preds(edges, n) = {}

(* why a cached order can be maintained incrementally (design lemmas):        *)
(*  - appending new nodes to a valid order is valid;                          *)
(*  - deleting nodes from a valid order is valid for the smaller graph;       *)
(*  - removing connections never invalidates an order.                        *)
SelectSeq2(s, keep) == SelectSeq(s, LAMBDA x : x \in keep)
IncrementalLemmas ==
  /\ \A n \in Node \ (nodes \cup wip) : IsValidOrder(Append(sorted, n), nodes \cup {n}, edges)
  /\ \A n \in nodes : IsValidOrder(SelectSeq2(sorted, nodes \ {n}), nodes \ {n}, edges)
  /\ \A n \in wip : IsValidOrder(sorted, nodes, { e \in edges : e[1] # n })
  /\ \A n \in wip : LET d == Descendants(edges, n) IN
        IsValidOrder(SelectSeq2(sorted, nodes \ d), nodes \ d, { e \in edges : e[1] # n /\ e[2] \notin d })
=============================================================================
