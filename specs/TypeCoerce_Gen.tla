-------------------------- MODULE TypeCoerce_Gen --------------------------
(* Case generator (mode M2) for C20 and type table for C21.                *)
(*   Mode = "pairs": one initial state per (type, value) pair, the value   *)
(*      drawn from the menu (inside and outside the type) and from the     *)
(*      type's own inhabitants; printed with the spec's classification.    *)
(*   Mode = "types": one initial state per type, printed with its index in *)
(*      the canonical enumeration and its inhabitants (C21 type table).    *)
EXTENDS TypeCoerce, Json
CONSTANTS Mode,          \* "pairs" | "types"
          Pick,          \* "d1": atoms and depth-1 types; "d2": the depth-2 types; "all"
          A, C, C2,      \* sets of atom kinds (see TypeCoerce!TypesUpTo)
          Shard, NShards

VARIABLES ti, val
vars == <<ti, val>>

TypeSet == IF Pick = "d1" THEN Atoms(A) \cup D1(A)
           ELSE IF Pick = "d2" THEN D2(C, C2) \ (Atoms(A) \cup D1(A))
           ELSE IF Pick = "d3opt" THEN D3opt
           ELSE TypesUpTo(2, A, C, C2)
(* computed once and kept in a TLC register (TLC re-evaluates definitions that involve *)
(* RECURSIVE operators at every use)                                                    *)
ASSUME TLCSet(1, SetToSeq(TypeSet))
TypeSeq == TLCGet(1)
Mine    == { i \in 1..Len(TypeSeq) : i % NShards = Shard }

Init == /\ ti \in Mine
        /\ val \in IF Mode = "pairs" THEN Menu \cup Inhabitants(TypeSeq[ti]) ELSE {NoneV}
Next == FALSE /\ UNCHANGED vars

ty == TypeSeq[ti]
Case ==
  IF Mode = "pairs"
  THEN [ t    |-> ty,
         v    |-> val,
         conf |-> Conforms(val, ty),              \* drawn from the type / from outside it
         inh  |-> val \in Inhabitants(ty) ]
  ELSE [ i    |-> ti,
         t    |-> ty,
         inhs |-> InhSeq(ty) ]
Emit == PrintT(ToJson(Case))

(* spec-level sanity theorems, evaluated on every enumerated case *)
Theorems ==
  /\ WellFormedType(ty)
  /\ WellFormedValue(val)
  /\ \A x \in Inhabitants(ty) : Conforms(x, ty) /\ WellFormedValue(x)
  /\ Inhabitants(ty) # {}
  /\ ~StrSeqConfusion(val, val)
  /\ SameVal(val, val)
  /\ (Conforms(val, ty) => Judged(val, ty) /\ C21Class(val, ty) # "C21-seq-to-bytes")
  /\ (Conforms(val, ty) /\ ~HasUnion(ty) => ReAsBuilt(ty, val, <<>>, <<>>) = Acc(val))
=============================================================================
