--------------------------- MODULE Shipping_Gen ---------------------------
(* M2 generator for C29: the worker / submitter CONFIGURATIONS a job is shipped  *)
(* with.  One initial state per configuration; the harness builds the submitter  *)
(* accordingly:                                                                  *)
(*   worker  - plugin;   how - the three ways Submitter accepts a worker         *)
(*             ("name" + kwargs, "class" + kwargs, a configured "instance");     *)
(*   variant - index into the harness' table of non-default parameter sets of    *)
(*             that plugin (0 = all defaults);                                   *)
(*   nro     - number of read-only caches; audit; maxc - max_concurrent (0=unset)*)
(* Runnable(c): the shipped job is also run in the other process (debug / cf);   *)
(* batch workers are shipped and projected only.                                 *)
EXTENDS Naturals, TLC, Json
VARIABLE c
Workers  == {"debug", "cf", "slurm", "sge"}
Hows     == {"name", "class", "instance"}
Variants(w) == IF w = "debug" THEN {0} ELSE 0..2
Init == c \in { [worker |-> w, how |-> h, variant |-> v, nro |-> r, audit |-> a, maxc |-> m,
                 runnable |-> (w \in {"debug", "cf"})] :
                w \in Workers, h \in Hows, v \in 0..2, r \in 0..1, a \in {"NONE", "PROV"}, m \in {0, 2} }
        /\ c.variant \in Variants(c.worker)
Next == UNCHANGED c
Spec == Init /\ [][Next]_c
Emit == PrintT(ToJson(c))
=============================================================================
