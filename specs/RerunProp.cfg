SPECIFICATION Spec
CONSTANT MaxLen = 3
INVARIANT Emit
INVARIANT AtMostOnce
INVARIANT RerunPropagates
INVARIANT NoPropagationNoNodeRerun
CHECK_DEADLOCK FALSE
