---------------------------- MODULE JobProtocol ----------------------------
(***************************************************************************)
(* Life of ONE cache identity (one job checksum) in a cache root shared by *)
(* several submitting processes, with optional read-only caches.           *)
(* One action per critical step of Job.run / Job.run_async                 *)
(* (pydra/engine/job.py), Job._populate_filesystem, result.save and        *)
(* result.record_error; the names of the pc values are the names of the    *)
(* hook points emitted by pydra.engine._verif.point(), so that a recorded  *)
(* trace can be checked action by action (JobProtocol_Trace).              *)
(*                                                                         *)
(* Decides C10 (single shared execution), C11 (at-most-once, rerun,        *)
(* read-only caches), C12 (crash anywhere), C13 (failures never cached as  *)
(* success), C35 (lifecycle leaves process and directory consistent).      *)
(*                                                                         *)
(* Environment assumption (stated in the evidence): a soft lock whose      *)
(* owner process is dead is broken by the next contender (filelock >= 3.13 *)
(* SoftFileLock stale-lock detection on the same host) - action StaleBreak.*)
(***************************************************************************)
EXTENDS Naturals, Sequences, FiniteSets, TLC

CONSTANTS
  Procs,            \* submitting processes
  ROSeq,            \* sequence of read-only cache names, in lookup order (after "root")
  MaxSubs,          \* submissions per process
  RerunAllowed,     \* subset of BOOLEAN: rerun flags a submission may carry
  BodyOutcomes,     \* subset of {"ok","raise"}: what one execution of the task body may do
  CrashBudget,      \* number of process deaths explored
  RaiseBudget,      \* number of injected exceptions explored
  LeftoverRoot,     \* set of possible initial contents of the job dir in the cache root
  LeftoverRO,       \* set of possible initial contents of the job dir in each read-only cache
  FirstExistingDirDecides,  \* AS-BUILT switch (C11): lookup stops at the first existing dir
  TryStartsLate     \* AS-BUILT switch (C35): chdir/hooks/audit-start precede the try block

Caches == <<"root">> \o ROSeq
CacheSet == {Caches[i] : i \in 1..Len(Caches)}

(* contents of the job directory  <cache>/<checksum>/  *)
DirState(ex, job, res, errf) == [ex |-> ex, job |-> job, res |-> res, errf |-> errf]
Absent     == DirState(FALSE, FALSE, "none", FALSE)
EmptyDir   == DirState(TRUE, FALSE, "none", FALSE)
JobOnly    == DirState(TRUE, TRUE, "none", FALSE)
PartialRes == DirState(TRUE, TRUE, "partial", FALSE)
EmptyRes   == DirState(TRUE, TRUE, "empty", FALSE)
Complete   == DirState(TRUE, TRUE, "ok", FALSE)
Errored    == DirState(TRUE, TRUE, "err", TRUE)
Readable(d) == d.res \in {"ok", "err"}

VARIABLES
  dir,        \* [CacheSet -> DirState]
  lock,       \* "free" or the process holding <checksum>.lock
  alive,      \* [Procs -> BOOLEAN]
  pc,         \* [Procs -> control point]
  cwd,        \* [Procs -> {"home","jobdir"}]
  info,       \* [Procs -> BOOLEAN]   <uid>_info.json exists
  rr,         \* [Procs -> BOOLEAN]   rerun flag of the current submission
  subs,       \* [Procs -> Nat]       submissions made
  exc,        \* [Procs -> {"none","body","inj"}]  exception in flight
  ret,        \* [Procs -> {"none","ok","raised"}] how the last submission ended
  outcome,    \* [Procs -> {"none","ok","raise"}]  what the body did in this submission
  preTask, postTask,  \* [Procs -> Nat] task-level hook calls in the current submission
  bodyStarts, bodyEnds,  \* executions of the task body started / finished (all processes)
  crashes, raises,
  okAtCheck,  \* [Procs -> BOOLEAN] ghost: a complete successful result was listed when p checked
  executed,   \* [Procs -> BOOLEAN] ghost: this submission entered the task body
  touched     \* BOOLEAN ghost: some submission (re)created the job directory in the cache root

vars == <<dir, lock, alive, pc, cwd, info, rr, subs, exc, ret, outcome, preTask, postTask,
          bodyStarts, bodyEnds, crashes, raises, okAtCheck, executed, touched>>

Init ==
  /\ dir \in { d \in [CacheSet -> LeftoverRoot \cup LeftoverRO] :
                 /\ d["root"] \in LeftoverRoot
                 /\ \A c \in CacheSet \ {"root"} : d[c] \in LeftoverRO }
  /\ lock = "free"
  /\ alive = [p \in Procs |-> TRUE]
  /\ pc = [p \in Procs |-> "idle"]
  /\ cwd = [p \in Procs |-> "home"]
  /\ info = [p \in Procs |-> FALSE]
  /\ rr = [p \in Procs |-> FALSE]
  /\ subs = [p \in Procs |-> 0]
  /\ exc = [p \in Procs |-> "none"]
  /\ ret = [p \in Procs |-> "none"]
  /\ outcome = [p \in Procs |-> "none"]
  /\ preTask = [p \in Procs |-> 0]
  /\ postTask = [p \in Procs |-> 0]
  /\ bodyStarts = 0 /\ bodyEnds = 0 /\ crashes = 0 /\ raises = 0
  /\ okAtCheck = [p \in Procs |-> FALSE]
  /\ executed = [p \in Procs |-> FALSE]
  /\ touched = FALSE

(* ---------- cache lookup (result.load_result over [root] + readonly) ---------- *)
RECURSIVE FirstIdx(_, _)
FirstIdx(P(_), i) == IF i > Len(Caches) THEN 0 ELSE IF P(Caches[i]) THEN i ELSE FirstIdx(P, i + 1)
AnyOk  == \E c \in CacheSet : dir[c].res = "ok"
(* intended design: a complete result in ANY listed cache is found *)
LookupIdeal ==
  LET i == FirstIdx(LAMBDA c : Readable(dir[c]), 1) IN IF i = 0 THEN "none" ELSE dir[Caches[i]].res
(* as built: the first location whose job directory exists decides *)
LookupAsBuilt ==
  LET i == FirstIdx(LAMBDA c : dir[c].ex, 1) IN
  IF i = 0 THEN "none" ELSE IF Readable(dir[Caches[i]]) THEN dir[Caches[i]].res ELSE "none"
Lookup == IF FirstExistingDirDecides THEN LookupAsBuilt ELSE LookupIdeal

(* ---------- helpers ---------- *)
At(p, l) == alive[p] /\ pc[p] = l
Goto(p, l) == pc' = [pc EXCEPT ![p] = l]
SetRoot(d) == dir' = [dir EXCEPT !["root"] = d]
Holds(p) == lock = p

(* ---------- the submission path ---------- *)
Submit(p, rerun) ==                      \* Job.run entered; hooks.pre_run called  -> point pre_run
  /\ At(p, "idle") /\ subs[p] < MaxSubs /\ rerun \in RerunAllowed
  /\ subs' = [subs EXCEPT ![p] = @ + 1]
  /\ rr' = [rr EXCEPT ![p] = rerun]
  /\ exc' = [exc EXCEPT ![p] = "none"] /\ ret' = [ret EXCEPT ![p] = "none"]
  /\ outcome' = [outcome EXCEPT ![p] = "none"]
  /\ preTask' = [preTask EXCEPT ![p] = 0] /\ postTask' = [postTask EXCEPT ![p] = 0]
  /\ okAtCheck' = [okAtCheck EXCEPT ![p] = FALSE] /\ executed' = [executed EXCEPT ![p] = FALSE]
  /\ Goto(p, "pre_run")
  /\ UNCHANGED <<dir, lock, alive, cwd, info, bodyStarts, bodyEnds, crashes, raises, touched>>

Acquire(p) ==                            \* lock file created                       -> point locked
  /\ At(p, "pre_run") /\ lock = "free"
  /\ lock' = p /\ Goto(p, "locked")
  /\ UNCHANGED <<dir, alive, cwd, info, rr, subs, exc, ret, outcome, preTask, postTask, bodyStarts,
                 bodyEnds, crashes, raises, okAtCheck, executed, touched>>

StaleBreak(p) ==                         \* contender removes the lock of a dead owner
  /\ At(p, "pre_run") /\ lock \in Procs /\ ~alive[lock]
  /\ lock' = "free"
  /\ UNCHANGED <<dir, alive, pc, cwd, info, rr, subs, exc, ret, outcome, preTask, postTask, bodyStarts,
                 bodyEnds, crashes, raises, okAtCheck, executed, touched>>

Keep == UNCHANGED <<lock, alive, cwd, info, rr, subs, exc, ret, outcome, preTask, postTask, bodyStarts,
                    bodyEnds, crashes, raises, executed>>
KeepT == Keep /\ UNCHANGED touched

CheckSkip(p) ==                          \* rerun requested: no lookup
  /\ At(p, "locked") /\ Holds(p) /\ rr[p]
  /\ Goto(p, "checked_miss") /\ UNCHANGED <<dir, okAtCheck>> /\ KeepT
CheckHit(p) ==                           \* result found, not errored               -> point checked(ok)
  /\ At(p, "locked") /\ Holds(p) /\ ~rr[p] /\ Lookup = "ok"
  /\ okAtCheck' = [okAtCheck EXCEPT ![p] = AnyOk]
  /\ Goto(p, "hit") /\ UNCHANGED dir /\ KeepT
CheckMiss(p) ==                          \* nothing (or an errored result) found    -> point checked(none|err)
  /\ At(p, "locked") /\ Holds(p) /\ ~rr[p] /\ Lookup # "ok"
  /\ okAtCheck' = [okAtCheck EXCEPT ![p] = AnyOk]
  /\ Goto(p, "checked_miss") /\ UNCHANGED dir /\ KeepT

Step(p, from, to) == At(p, from) /\ Holds(p) /\ Goto(p, to)

WriteInfo(p) == /\ Step(p, "checked_miss", "info_written")
                /\ info' = [info EXCEPT ![p] = TRUE]
                /\ UNCHANGED <<dir, lock, alive, cwd, rr, subs, exc, ret, outcome, preTask, postTask, bodyStarts,
                               bodyEnds, crashes, raises, okAtCheck, executed, touched>>
ClearDir(p)  == /\ Step(p, "info_written", "dir_cleared") /\ SetRoot(Absent) /\ UNCHANGED okAtCheck /\ KeepT
MakeDir(p)   == /\ Step(p, "dir_cleared", "dir_made") /\ SetRoot(EmptyDir) /\ UNCHANGED okAtCheck /\ Keep /\ touched' = TRUE
SaveJob(p)   == /\ Step(p, "dir_made", "job_saved") /\ SetRoot(JobOnly) /\ UNCHANGED okAtCheck /\ KeepT
Chdir(p)     == /\ Step(p, "job_saved", "chdir")
                /\ cwd' = [cwd EXCEPT ![p] = "jobdir"]
                /\ UNCHANGED <<dir, lock, alive, info, rr, subs, exc, ret, outcome, preTask, postTask, bodyStarts,
                               bodyEnds, crashes, raises, okAtCheck, executed, touched>>
PreTask(p)   == /\ Step(p, "chdir", "pre_run_task")
                /\ preTask' = [preTask EXCEPT ![p] = @ + 1]
                /\ UNCHANGED <<dir, lock, alive, cwd, info, rr, subs, exc, ret, outcome, postTask, bodyStarts,
                               bodyEnds, crashes, raises, okAtCheck, executed, touched>>
AuditStart(p) == /\ Step(p, "pre_run_task", "audit_started") /\ UNCHANGED <<dir, okAtCheck>> /\ KeepT
BodyStart(p) == /\ Step(p, "audit_started", "body_start")
                /\ bodyStarts' = bodyStarts + 1
                /\ executed' = [executed EXCEPT ![p] = TRUE]
                /\ UNCHANGED <<dir, lock, alive, cwd, info, rr, subs, exc, ret, outcome, preTask, postTask,
                               bodyEnds, crashes, raises, okAtCheck, touched>>
BodyOk(p)    == /\ Step(p, "body_start", "body_end") /\ "ok" \in BodyOutcomes
                /\ bodyEnds' = bodyEnds + 1
                /\ outcome' = [outcome EXCEPT ![p] = "ok"]
                /\ UNCHANGED <<dir, lock, alive, cwd, info, rr, subs, exc, ret, preTask, postTask, bodyStarts,
                               crashes, raises, okAtCheck, executed, touched>>
BodyRaise(p) == /\ Step(p, "body_start", "body_raised") /\ "raise" \in BodyOutcomes
                /\ bodyEnds' = bodyEnds + 1
                /\ outcome' = [outcome EXCEPT ![p] = "raise"]
                /\ exc' = [exc EXCEPT ![p] = "body"]
                /\ UNCHANGED <<dir, lock, alive, cwd, info, rr, subs, ret, preTask, postTask, bodyStarts,
                               crashes, raises, okAtCheck, executed, touched>>
CollectRaise(p) == /\ Step(p, "body_end", "body_raised") /\ "raise" \in BodyOutcomes   \* outputs cannot be collected
                   /\ outcome' = [outcome EXCEPT ![p] = "raise"]
                   /\ exc' = [exc EXCEPT ![p] = "body"]
                   /\ UNCHANGED <<dir, lock, alive, cwd, info, rr, subs, ret, preTask, postTask, bodyStarts, bodyEnds,
                                  crashes, raises, okAtCheck, executed, touched>>
Collect(p)   == /\ Step(p, "body_end", "outputs_collected") /\ UNCHANGED <<dir, okAtCheck>> /\ KeepT
RecordError(p) == /\ Step(p, "body_raised", "error_recorded")
                  /\ SetRoot([dir["root"] EXCEPT !.errf = TRUE]) /\ UNCHANGED okAtCheck /\ KeepT
PostTask(p)  == /\ (At(p, "outputs_collected") \/ At(p, "error_recorded")) /\ Holds(p)
                /\ Goto(p, "post_run_task")
                /\ postTask' = [postTask EXCEPT ![p] = @ + 1]
                /\ UNCHANGED <<dir, lock, alive, cwd, info, rr, subs, exc, ret, outcome, preTask, bodyStarts,
                               bodyEnds, crashes, raises, okAtCheck, executed, touched>>
AuditEnd(p)  == /\ Step(p, "post_run_task", "audit_finalized") /\ UNCHANGED <<dir, okAtCheck>> /\ KeepT
SaveBegin(p) == /\ Step(p, "audit_finalized", "result_write_begin")   \* open(..., "wb") truncates
                /\ SetRoot([dir["root"] EXCEPT !.res = "empty"]) /\ UNCHANGED okAtCheck /\ KeepT
SaveResult(p) == /\ Step(p, "result_write_begin", "result_saved")
                 /\ SetRoot([dir["root"] EXCEPT !.res = IF exc[p] = "none" THEN "ok" ELSE "err", !.job = TRUE])
                 /\ UNCHANGED okAtCheck /\ KeepT
UnlinkInfo(p) == /\ Step(p, "result_saved", "info_unlinked")
                 /\ info' = [info EXCEPT ![p] = FALSE]
                 /\ UNCHANGED <<dir, lock, alive, cwd, rr, subs, exc, ret, outcome, preTask, postTask, bodyStarts,
                                bodyEnds, crashes, raises, okAtCheck, executed, touched>>
RestoreCwd(p) == /\ Step(p, "info_unlinked", "cwd_restored")
                 /\ cwd' = [cwd EXCEPT ![p] = "home"]
                 /\ UNCHANGED <<dir, lock, alive, info, rr, subs, exc, ret, outcome, preTask, postTask, bodyStarts,
                                bodyEnds, crashes, raises, okAtCheck, executed, touched>>

Release(p) ==                            \* leaving the with block               -> point releasing
  /\ (At(p, "hit") \/ At(p, "cwd_restored") \/ At(p, "unwinding")) /\ Holds(p)
  /\ lock' = "free"
  /\ Goto(p, IF pc[p] = "hit" THEN "returning" ELSE IF exc[p] = "none" THEN "released" ELSE "raising")
  /\ UNCHANGED <<dir, alive, cwd, info, rr, subs, exc, ret, outcome, preTask, postTask, bodyStarts, bodyEnds,
                 crashes, raises, okAtCheck, executed, touched>>

PostRun(p) == /\ At(p, "released") /\ Goto(p, "post_run")
              /\ UNCHANGED <<dir, lock, alive, cwd, info, rr, subs, exc, ret, outcome, preTask, postTask,
                             bodyStarts, bodyEnds, crashes, raises, okAtCheck, executed, touched>>
(* Submitter.__call__ reads the result once more AFTER the job lock has been released (lock-free): *)
(* the call returns the outputs only if a successful result is (still) found.                    *)
Return(p) ==  /\ (At(p, "post_run") \/ At(p, "returning"))
              /\ Goto(p, "idle") /\ ret' = [ret EXCEPT ![p] = IF LookupIdeal = "ok" THEN "ok" ELSE "raised"]
              /\ UNCHANGED <<dir, lock, alive, cwd, info, rr, subs, exc, outcome, preTask, postTask,
                             bodyStarts, bodyEnds, crashes, raises, okAtCheck, executed, touched>>
RaiseOut(p) == /\ At(p, "raising")
               /\ Goto(p, "idle") /\ ret' = [ret EXCEPT ![p] = "raised"]
               /\ UNCHANGED <<dir, lock, alive, cwd, info, rr, subs, exc, outcome, preTask, postTask,
                              bodyStarts, bodyEnds, crashes, raises, okAtCheck, executed, touched>>

(* ---------- faults ---------- *)
CrashPoints == {"pre_run", "locked", "hit", "checked_miss", "info_written", "dir_cleared", "dir_made", "job_saved",
                "chdir", "pre_run_task", "audit_started", "body_start", "body_end", "outputs_collected",
                "body_raised", "error_recorded", "post_run_task", "audit_finalized", "result_write_begin",
                "result_saved", "info_unlinked", "cwd_restored", "released", "post_run", "returning", "raising"}
Crash(p) ==                              \* the process dies; lock file and partial files stay
  /\ alive[p] /\ pc[p] \in CrashPoints /\ crashes < CrashBudget
  /\ alive' = [alive EXCEPT ![p] = FALSE]
  /\ crashes' = crashes + 1
  /\ dir' = IF pc[p] = "result_write_begin"
            THEN [dir EXCEPT !["root"].res = "partial"]     \* died while the pickle was being written
            ELSE dir
  /\ UNCHANGED <<lock, pc, cwd, info, rr, subs, exc, ret, outcome, preTask, postTask, bodyStarts, bodyEnds,
                 raises, okAtCheck, executed, touched>>
CrashEmpty(p) ==                         \* ... or right after open(): zero-length result file
  /\ alive[p] /\ pc[p] = "result_write_begin" /\ crashes < CrashBudget
  /\ alive' = [alive EXCEPT ![p] = FALSE] /\ crashes' = crashes + 1
  /\ UNCHANGED <<dir, lock, pc, cwd, info, rr, subs, exc, ret, outcome, preTask, postTask, bodyStarts, bodyEnds,
                 raises, okAtCheck, executed, touched>>

(* exception injected right after the named point was reached (C35) *)
BeforeLock == {"pre_run"}
BeforeTry  == {"locked", "checked_miss", "info_written", "dir_cleared", "dir_made", "job_saved", "chdir",
               "pre_run_task", "audit_started"}
InTry      == {"body_start", "body_end", "outputs_collected"}
InExcept   == {"error_recorded"}
InFinally  == {"post_run_task", "audit_finalized", "result_write_begin", "result_saved", "info_unlinked"}
AllDone    == {"hit", "cwd_restored"}          \* still inside the lock, nothing left to clean
AfterWith  == {"released", "post_run", "returning"}
InjectAt(p) ==
  /\ alive[p] /\ raises < RaiseBudget
  /\ pc[p] \in BeforeLock \cup BeforeTry \cup InTry \cup InExcept \cup InFinally \cup AllDone \cup AfterWith
  /\ raises' = raises + 1
  /\ exc' = [exc EXCEPT ![p] = IF @ = "none" THEN "inj" ELSE @]
  /\ IF pc[p] \in InTry
     THEN /\ Goto(p, "body_raised") /\ UNCHANGED <<dir, cwd, info>>        \* handled by except/finally
     ELSE IF pc[p] \in InExcept
     THEN /\ UNCHANGED <<pc, dir, cwd, info>>                               \* finally still runs
     ELSE IF pc[p] \in AfterWith \cup BeforeLock
     THEN /\ Goto(p, "raising") /\ UNCHANGED <<dir, cwd, info>>
     ELSE IF pc[p] \in AllDone
     THEN /\ Goto(p, "unwinding") /\ UNCHANGED <<dir, cwd, info>>
     ELSE IF TryStartsLate
     THEN /\ Goto(p, "unwinding") /\ UNCHANGED <<dir, cwd, info>>          \* as built: nothing is cleaned up
     ELSE /\ Goto(p, "unwinding")                                          \* intended: full clean-up
          /\ cwd' = [cwd EXCEPT ![p] = "home"]
          /\ info' = [info EXCEPT ![p] = FALSE]
          /\ dir' = IF dir["root"].ex /\ touched /\ pc[p] \notin {"locked", "checked_miss", "info_written"}
                    THEN [dir EXCEPT !["root"] = DirState(TRUE, TRUE, IF @.res = "ok" /\ pc[p] \in {"result_saved", "info_unlinked"} THEN "ok" ELSE "err", @.errf)]
                    ELSE dir
  /\ UNCHANGED <<lock, alive, rr, subs, ret, outcome, preTask, postTask, bodyStarts, bodyEnds, crashes,
                 okAtCheck, executed, touched>>

ProcStep(p) ==
  \/ \E r \in BOOLEAN : Submit(p, r)
  \/ Acquire(p) \/ StaleBreak(p) \/ CheckSkip(p) \/ CheckHit(p) \/ CheckMiss(p)
  \/ WriteInfo(p) \/ ClearDir(p) \/ MakeDir(p) \/ SaveJob(p) \/ Chdir(p) \/ PreTask(p) \/ AuditStart(p)
  \/ BodyStart(p) \/ BodyOk(p) \/ BodyRaise(p) \/ CollectRaise(p) \/ Collect(p) \/ RecordError(p)
  \/ PostTask(p) \/ AuditEnd(p) \/ SaveBegin(p) \/ SaveResult(p) \/ UnlinkInfo(p) \/ RestoreCwd(p)
  \/ Release(p) \/ PostRun(p) \/ Return(p) \/ RaiseOut(p)
Fault(p) == Crash(p) \/ CrashEmpty(p) \/ InjectAt(p)
Next == \E p \in Procs : ProcStep(p) \/ Fault(p)
Spec == Init /\ [][Next]_vars
FairSpec == Spec /\ \A p \in Procs : WF_vars(ProcStep(p))

(* ---------------------------- properties ---------------------------- *)
TypeOK ==
  /\ lock \in Procs \cup {"free"}
  /\ \A c \in CacheSet : dir[c].res \in {"none", "empty", "partial", "ok", "err"}
  /\ \A p \in Procs : cwd[p] \in {"home", "jobdir"}

MutualExclusion ==                       \* at most one live process between locked and release
  Cardinality({p \in Procs : alive[p] /\ pc[p] \notin {"idle", "pre_run", "released", "post_run", "returning",
                                                        "raising"}}) <= 1
(* C10 *)
NoFaults == crashes = 0 /\ raises = 0
OneBodyPerId ==                          \* without rerun / failure / crash the body runs at most once
  (NoFaults /\ RerunAllowed = {FALSE} /\ BodyOutcomes = {"ok"}) => bodyStarts <= 1
ReturnedOkMeansComplete ==               \* never a partial / missing / errored result behind a successful return
  \A p \in Procs : (ret[p] = "ok" /\ pc[p] = "idle" /\ NoFaults) => \E c \in CacheSet : dir[c].res = "ok"
NoPartialVisibleUnlocked ==              \* a half-written result only exists while its writer holds the lock (or died)
  (dir["root"].res \in {"empty", "partial"}) => (lock \in Procs)
FinalReadFindsResult ==                   \* a call whose own run raised nothing returns its outputs
  \A p \in Procs : (pc[p] = "idle" /\ alive[p] /\ subs[p] > 0 /\ exc[p] = "none") => ret[p] # "raised"
(* C11 *)
ReuseComplete ==                         \* a complete result in any listed cache is reused unless rerun
  \A p \in Procs : (executed[p] /\ ~rr[p]) => ~okAtCheck[p]
ReadonlyUntouched == [][\A c \in CacheSet \ {"root"} : dir'[c] = dir[c]]_vars
RerunReexecutes ==                       \* a rerun submission that returned did execute the body
  \A p \in Procs : (rr[p] /\ pc[p] = "idle" /\ ret[p] = "ok") => executed[p]
(* C12 *)
SuccessMeansBodyFinished ==              \* a crash is never taken for a success
  (dir["root"].res = "ok" /\ Complete \notin LeftoverRoot) => bodyEnds >= 1
OkResultOnlyAfterOkBody ==
  [][(dir'["root"].res = "ok" /\ dir["root"].res # "ok") => \E p \in Procs : outcome[p] = "ok" /\ exc[p] = "none"]_vars
(* C13 *)
ErrNeverServed ==                        \* a submission that found an errored result executes again
  \A p \in Procs : (alive[p] /\ pc[p] = "hit") => \E c \in CacheSet : dir[c].res = "ok"   \* a dead process serves nobody: after its lock is broken a rerun may clear the entry (MC_C12_deep)
RaiseIsReported ==                       \* a raising body ends in `raised`, with the error recorded, never `ok`
  \A p \in Procs : (outcome[p] = "raise" /\ pc[p] = "idle" /\ alive[p]) => ret[p] = "raised"
ErrorRecorded ==
  \A p \in Procs : (outcome[p] = "raise" /\ pc[p] = "idle" /\ ret[p] = "raised" /\ NoFaults /\ lock = "free")
                      => (dir["root"].res \in {"err", "ok"} /\ (dir["root"].res = "err" => dir["root"].errf))
(* C35 *)
Quiescent(p) == alive[p] /\ pc[p] = "idle" /\ subs[p] > 0
CwdRestored == \A p \in Procs : Quiescent(p) => cwd[p] = "home"
InfoRemoved == \A p \in Procs : Quiescent(p) => ~info[p]
DirHasJobAndResult ==
  (crashes = 0 /\ lock = "free" /\ dir["root"].ex /\ touched /\ \E p \in Procs : Quiescent(p))
     => (dir["root"].job /\ Readable(dir["root"]))
TaskHooksOncePerExecution ==
  \A p \in Procs : Quiescent(p) =>
     /\ (executed[p] /\ raises = 0) => (preTask[p] = 1 /\ postTask[p] = 1)
     /\ ~executed[p] /\ raises = 0 => (preTask[p] = 0 /\ postTask[p] = 0)
(* liveness (C12: nobody blocks forever on a dead process's lock; C18-style termination of one job) *)
EverybodyReturns == \A p \in Procs : [](alive[p] /\ pc[p] # "idle" => <>(~alive[p] \/ pc[p] = "idle"))
=============================================================================
