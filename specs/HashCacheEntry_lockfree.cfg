SPECIFICATION Spec
CONSTANTS
  Procs = {p1, p2, p3}
  LockFreeRead = TRUE
INVARIANT SameDigestEverywhere
CHECK_DEADLOCK FALSE
