\* as-built switch C28-sge-cannot-submit must violate Inv
SPECIFICATION Spec
CONSTANTS
  Kinds = {"sge"}
  Modes = {"asbuilt"}
  MaxPolls = 2
  ExhLen = 2
  SampleMod = 1
  Seed = 0
  OptPlan = "all"
INVARIANT Inv
CHECK_DEADLOCK FALSE
