--------------------------- MODULE BatchWorker_Gen ---------------------------
(* Behaviour generator (mode M3) for BatchWorker: `ev` is the history variable, so  *)
(* every terminal state is one complete behaviour; it is printed as JSON together   *)
(* with the case it belongs to.  The replayer groups the lines by case: the         *)
(* "intended" lines of a case are the allowed outcomes, the "asbuilt" line is the   *)
(* named as-built prediction.                                                       *)
EXTENDS BatchWorker, Json

Behaviour ==
  [ kind    |-> kind,
    mode    |-> mode,
    opts    |-> opts,
    sub     |-> sub,
    script  |-> script,
    ev      |-> ev,
    verdict |-> verdict,
    why     |-> why,
    want    |-> Want(opts),
    finding |-> Finding ]
Emit == (pc = "done") => PrintT(ToJson(Behaviour))
=============================================================================
