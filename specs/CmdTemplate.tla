---------------------------- MODULE CmdTemplate ----------------------------
(***************************************************************************)
(* Reference semantics of pydra's shell COMMAND-LINE TEMPLATES             *)
(* (property C25).  Written from the documentation                         *)
(* (docs/source/tutorial/5-shell.ipynb, sections "Command-line templates", *)
(* "Defining input/output types", "Flags and options", "Defaults", "Path   *)
(* templates for output files") and from the property statement.  Nothing  *)
(* here resembles the implementation: there is no tokenizer and no regular *)
(* expression; a template is a sequence of ELEMENT records, the module     *)
(* renders the template TEXT from the documented concrete syntax and says  *)
(* which field each element defines and what it contributes to the argv.   *)
(*                                                                         *)
(* Documented grammar (one element = one "token" of the property):         *)
(*   executable words            cmd | cmd sub                             *)
(*   <name>                      input, type fs-object                     *)
(*   <name:T>                    T = int|float|str|bool | MIME-like format *)
(*                               (namespace "generic/" may be dropped) |   *)
(*                               T1,T2 tuple | T,... variable tuple        *)
(*   <name?>  <name+>  <name*>   optional / one-or-more / zero-or-more     *)
(*   <name=literal>              default                                   *)
(*   -o <name..> --opt <name..>  option: flag text printed before the      *)
(*                               value; untyped value is a string          *)
(*   -v<name> --flag<name=True>  boolean flag (no space)                   *)
(*   <out|name..>                output file argument; path template is    *)
(*                               name + extension of the format, or the    *)
(*                               text after `$`                            *)
(***************************************************************************)
EXTENDS Naturals, Sequences, FiniteSets, TLC

(* ------------------------------ types ---------------------------------- *)
(* k = "none" (nothing written) | "builtin" | "format" | "tuple" | "vtuple" *)
NoType          == [k |-> "none",    ns |-> "", nm |-> "", short |-> FALSE, ext |-> "", items |-> <<>>]
Builtin(n)      == [k |-> "builtin", ns |-> "", nm |-> n,  short |-> FALSE, ext |-> "", items |-> <<>>]
Format(ns, nm, short, ext) ==
                   [k |-> "format",  ns |-> ns, nm |-> nm, short |-> short, ext |-> ext, items |-> <<>>]
Tuple(items)    == [k |-> "tuple",   ns |-> "", nm |-> "", short |-> FALSE, ext |-> "", items |-> items]
VTuple(item)    == [k |-> "vtuple",  ns |-> "", nm |-> "", short |-> FALSE, ext |-> "", items |-> <<item>>]

TInt        == Builtin("int")
TFloat      == Builtin("float")
TStr        == Builtin("str")
TBool       == Builtin("bool")
TFsObject   == Format("generic", "fs-object", TRUE, "")     \* written  fs-object
TFile       == Format("generic", "file", TRUE, "")          \* written  file
TFileLong   == Format("generic", "file", FALSE, "")         \* written  generic/file
TDirectory  == Format("generic", "directory", TRUE, "")     \* written  directory
TCsv        == Format("text", "csv", FALSE, ".csv")
TPng        == Format("image", "png", FALSE, ".png")
TGzip       == Format("application", "gzip", FALSE, ".gz")
TIntStr     == Tuple(<<"int", "str">>)
TIntVar     == VTuple("int")

RECURSIVE JoinStr(_, _)
JoinStr(ss, sep) == IF ss = <<>> THEN "" ELSE IF Len(ss) = 1 THEN ss[1]
                    ELSE ss[1] \o sep \o JoinStr(Tail(ss), sep)

(* the text written after ':' *)
TypeText(t) == CASE t.k = "builtin" -> t.nm
                 [] t.k = "format"  -> IF t.short THEN t.nm ELSE t.ns \o "/" \o t.nm
                 [] t.k = "tuple"   -> JoinStr(t.items, ",")
                 [] t.k = "vtuple"  -> t.items[1] \o ",..."
                 [] OTHER           -> ""

(* what the field table shows: the namespace is always spelled out *)
Canon(t) == CASE t.k = "builtin" -> [k |-> "builtin", name |-> t.nm, items |-> <<>>]
              [] t.k = "format"  -> [k |-> "format",  name |-> t.ns \o "/" \o t.nm, items |-> <<>>]
              [] t.k = "tuple"   -> [k |-> "tuple",   name |-> "", items |-> t.items]
              [] t.k = "vtuple"  -> [k |-> "vtuple",  name |-> "", items |-> t.items]
              [] OTHER           -> [k |-> "open",    name |-> "", items |-> <<>>]
OpenType == [k |-> "open", name |-> "", items |-> <<>>]

(* ------------------------------ values --------------------------------- *)
(* k = "int" | "float" | "str" | "bool" | "path" (symbolic: "@x" lives in   *)
(* the harness input directory, "%x" in the job directory, "!x" is given   *)
(* explicitly by the caller) | "tuple" | "list" | "none" | "unset" | "true" *)
Atom(k, s)   == [k |-> k, s |-> s, items |-> <<>>]
TupV(items)  == [k |-> "tuple", s |-> "", items |-> items]
ListV(items) == [k |-> "list",  s |-> "", items |-> items]
NoneV        == Atom("none", "")
Unset        == Atom("unset", "")      \* the caller passes nothing
UseTemplate  == Atom("true", "")       \* the caller passes True to an output argument
NoDefault    == Atom("nodefault", "")  \* the field is mandatory
BoolV(b)     == Atom("bool", IF b THEN "True" ELSE "False")

RECURSIVE Render(_)      \* the argv words a value is printed as
Render(v) == CASE v.k \in {"int", "float", "str", "path"} -> <<v.s>>
               [] v.k = "bool"  -> <<v.s>>
               [] v.k \in {"tuple", "list"} ->
                    IF v.items = <<>> THEN <<>> ELSE Render(v.items[1]) \o Render([v EXCEPT !.items = Tail(v.items)])
               [] OTHER -> <<>>

(* two distinct sample values per type (the second overrides defaults / is the 2nd list element) *)
Sample(t, which) ==
  CASE t.k = "builtin" /\ t.nm = "int"   -> Atom("int",   IF which = 1 THEN "7" ELSE "12")
    [] t.k = "builtin" /\ t.nm = "float" -> Atom("float", IF which = 1 THEN "1.5" ELSE "2.25")
    [] t.k = "builtin" /\ t.nm = "str"   -> Atom("str",   IF which = 1 THEN "sv" ELSE "tw")
    [] t.k = "builtin" /\ t.nm = "bool"  -> BoolV(which = 1)
    [] t.k = "format" /\ t.nm = "directory" -> Atom("path", IF which = 1 THEN "@d1" ELSE "@d2")
    [] t.k = "format" /\ t.nm = "fs-object" -> Atom("path", IF which = 1 THEN "@f1.txt" ELSE "@d2")
    [] t.k = "format" -> Atom("path", (IF which = 1 THEN "@f1" ELSE "@f2") \o (IF t.ext = "" THEN ".txt" ELSE t.ext))
    [] t.k = "tuple"  -> TupV(<<Atom("int", IF which = 1 THEN "3" ELSE "4"), Atom("str", IF which = 1 THEN "tu" ELSE "tv")>>)
    [] t.k = "vtuple" -> IF which = 1 THEN TupV(<<Atom("int", "5"), Atom("int", "6"), Atom("int", "8")>>)
                         ELSE TupV(<<Atom("int", "9")>>)

(* ----------------------------- elements -------------------------------- *)
(* kind "arg" | "flag" | "out";  opt = option / flag text or "";            *)
(* suf "" | "?" | "+" | "*" | "=" | "$";  dflt = [txt, val];  tmpl text     *)
NoLit == [txt |-> "", val |-> Unset]
Lit(txt, val) == [txt |-> txt, val |-> val]
Elem(kind, opt, ty, suf, dflt, tmpl) ==
  [kind |-> kind, opt |-> opt, ty |-> ty, suf |-> suf, dflt |-> dflt, tmpl |-> tmpl]

(* the literal written after '=' for a type (documented examples: 99, 'foo', True, (1,'bar')) *)
DefaultLit(t) ==
  CASE t.k = "builtin" /\ t.nm = "int"   -> Lit("99", Atom("int", "99"))
    [] t.k = "builtin" /\ t.nm = "float" -> Lit("0.25", Atom("float", "0.25"))
    [] t.k = "builtin" /\ t.nm = "str"   -> Lit("'foo'", Atom("str", "foo"))
    [] t.k = "builtin" /\ t.nm = "bool"  -> Lit("True", BoolV(TRUE))
    [] t.k = "none"                      -> Lit("\"bar\"", Atom("str", "bar"))   \* untyped option value: a string
    [] t.k = "tuple"  -> Lit("(1,'bar')", TupV(<<Atom("int", "1"), Atom("str", "bar")>>))
    [] t.k = "vtuple" -> Lit("(1,2)", TupV(<<Atom("int", "1"), Atom("int", "2")>>))

(* the type a field has when nothing is written after the name:            *)
(* "By default, shell-command fields are considered to be of FsObject type" *)
(* "[after a flag with a space] it is assumed to be of type string"         *)
EffType(e) == IF e.kind = "flag" THEN TBool
              ELSE IF e.ty.k # "none" THEN e.ty
              ELSE IF e.opt = "" THEN TFsObject ELSE TStr

(* an output *file* argument whose type would be "string" by the option    *)
(* rule: the documentation does not say which rule wins => type left open  *)
TypeOpen(e) == e.kind = "out" /\ e.ty.k = "none" /\ e.opt # ""

IsBool(e) == LET t == EffType(e) IN t.k = "builtin" /\ t.nm = "bool"

(* ----------------------------- field table ----------------------------- *)
DefaultOf(e) ==
  IF e.kind = "flag" THEN (IF e.suf = "=" THEN e.dflt.val ELSE BoolV(FALSE))
  ELSE CASE e.suf = "?" -> NoneV
         [] e.suf = "*" -> ListV(<<>>)
         [] e.suf = "=" -> e.dflt.val
         [] OTHER       -> NoDefault

PathTemplateOf(e, name) ==
  IF e.kind # "out" THEN ""
  ELSE IF e.suf = "$" THEN name \o "-" \o e.tmpl      \* the text written after `$` (made unique per field)
  ELSE name \o EffType(e).ext           \* "based on its name and extension (if applicable)"

Field(e, name, idx) ==
  [ name     |-> name,
    kind     |-> IF e.kind = "out" THEN "outarg" ELSE "arg",
    type     |-> IF TypeOpen(e) THEN OpenType ELSE Canon(EffType(e)),
    optional |-> e.kind # "flag" /\ e.suf = "?",
    multi    |-> e.kind # "flag" /\ e.suf \in {"+", "*"},
    default  |-> DefaultOf(e),
    argstr   |-> e.opt,
    order    |-> idx,                   \* rank in template order
    tmpl     |-> PathTemplateOf(e, name) ]

(* ----------------------------- template text --------------------------- *)
ElemText(e, name) ==
  LET tytxt  == IF e.ty.k = "none" THEN "" ELSE ":" \o TypeText(e.ty)
      suftxt == CASE e.suf = "=" -> "=" \o e.dflt.txt
                  [] e.suf = "$" -> "$" \o name \o "-" \o e.tmpl
                  [] OTHER       -> e.suf
  IN CASE e.kind = "flag" -> e.opt \o "<" \o name \o suftxt \o ">"
       [] e.kind = "arg"  -> (IF e.opt = "" THEN "" ELSE e.opt \o " ") \o "<" \o name \o tytxt \o suftxt \o ">"
       [] e.kind = "out"  -> (IF e.opt = "" THEN "" ELSE e.opt \o " ") \o "<out|" \o name \o tytxt \o suftxt \o ">"

FieldNames == <<"in_file", "x2", "opt_c", "D4", "e", "f_6">>

TemplateText(exec, seq) ==
  JoinStr(exec \o [i \in 1..Len(seq) |-> ElemText(seq[i], FieldNames[i])], " ")

(* ------------------------- caller-supplied values ---------------------- *)
(* set = TRUE: the caller supplies everything that can be supplied;        *)
(* set = FALSE: only what is mandatory.                                    *)
Supplied(e, name, set) ==
  LET t == EffType(e) IN
  CASE e.kind = "flag" -> IF set THEN BoolV(DefaultOf(e) # BoolV(TRUE)) ELSE Unset
    [] e.kind = "out"  -> IF ~set THEN Unset
                          ELSE IF e.suf = "?" THEN UseTemplate
                          ELSE Atom("path", "!given_" \o name \o t.ext)     \* "can always be overridden when the task is initialised"
    [] e.suf = "?" -> IF set THEN Sample(t, 1) ELSE Unset
    [] e.suf = "+" -> IF set THEN ListV(<<Sample(t, 1), Sample(t, 2)>>) ELSE ListV(<<Sample(t, 1)>>)
    [] e.suf = "*" -> IF set THEN ListV(<<Sample(t, 1), Sample(t, 2)>>) ELSE Unset
    [] e.suf = "=" -> IF set THEN Sample(t, 2) ELSE Unset
    [] OTHER       -> IF IsBool(e) THEN BoolV(set) ELSE Sample(t, 1)

Effective(e, v) == IF v = Unset THEN DefaultOf(e) ELSE v

(* ------------------------------- argv ---------------------------------- *)
OptWords(e) == IF e.opt = "" THEN <<>> ELSE <<e.opt>>

RECURSIVE Repeated(_, _)  \* "for options, the flag itself is printed multiple times"
Repeated(e, items) == IF items = <<>> THEN <<>>
                      ELSE OptWords(e) \o Render(items[1]) \o Repeated(e, Tail(items))

Contribution(e, name, v) ==
  LET eff == Effective(e, v) IN
  CASE eff.k = "none" -> <<>>                                    \* None: not on the command line
    [] e.kind = "out" -> IF eff.k = "path" THEN OptWords(e) \o <<eff.s>>              \* used as given
                         ELSE OptWords(e) \o <<"%" \o PathTemplateOf(e, name)>>       \* template, in the job directory
    [] IsBool(e) /\ e.suf \notin {"+", "*"} -> IF eff = BoolV(TRUE) THEN OptWords(e) ELSE <<>>
    [] eff.k = "list" -> Repeated(e, eff.items)
    [] OTHER -> OptWords(e) \o Render(eff)

RECURSIVE ArgvFrom(_, _, _)
ArgvFrom(seq, vals, i) ==
  IF i > Len(seq) THEN <<>>
  ELSE Contribution(seq[i], FieldNames[i], vals[i]) \o ArgvFrom(seq, vals, i + 1)

(* the executable followed by the options and arguments in template order *)
Argv(exec, seq, vals) == exec \o ArgvFrom(seq, vals, 1)

(* a boolean argument without flag text: the documentation only describes  *)
(* booleans as flags, so what it prints is left open                       *)
ArgvOpen(seq) == \E i \in 1..Len(seq) : seq[i].kind = "arg" /\ seq[i].opt = "" /\ IsBool(seq[i])

(* ------------------- named as-built reference (known finding) ----------- *)
(* C25-untyped-output-after-option: an output argument that follows an      *)
(* option and has no written type is given the *string* type of option      *)
(* values; a string field never receives the "use the path template"        *)
(* default, so nothing is printed for it unless the caller names a path,    *)
(* and asking for the template (True) is rejected as a type error.          *)
AsBuiltClass(seq) == \E i \in 1..Len(seq) : TypeOpen(seq[i])
ContributionAsBuilt(e, name, v) ==
  IF ~TypeOpen(e) THEN Contribution(e, name, v)
  ELSE IF v.k = "path" THEN OptWords(e) \o <<v.s>> ELSE <<>>
AsBuiltRejects(seq, vals) == \E i \in 1..Len(seq) : TypeOpen(seq[i]) /\ vals[i] = UseTemplate
RECURSIVE ArgvFromAsBuilt(_, _, _)
ArgvFromAsBuilt(seq, vals, i) ==
  IF i > Len(seq) THEN <<>>
  ELSE ContributionAsBuilt(seq[i], FieldNames[i], vals[i]) \o ArgvFromAsBuilt(seq, vals, i + 1)
ArgvAsBuilt(exec, seq, vals) ==
  IF AsBuiltRejects(seq, vals) THEN <<"!TypeError">>
  ELSE exec \o ArgvFromAsBuilt(seq, vals, 1)

(* ------------------------------- menus --------------------------------- *)
Opts  == {"", "-o", "--long-opt"}
Flags == {"-v", "--dry-run"}

SufsFor(t, opt) ==
  CASE t.k = "none"    -> IF opt = "" THEN {"", "?", "+", "*"} ELSE {"", "?", "+", "*", "="}
    [] t.k = "builtin" -> IF t.nm = "bool" THEN {"", "?", "="} ELSE {"", "?", "+", "*", "="}
    [] t.k = "format"  -> {"", "?", "+", "*"}
    [] t.k = "tuple"   -> {"", "?", "+", "*", "="}
    [] t.k = "vtuple"  -> {"", "?", "="}

ArgTypes == {NoType, TInt, TFloat, TStr, TBool, TFsObject, TFile, TFileLong, TDirectory, TCsv, TIntStr, TIntVar}
OutTypes == {NoType, TFile, TDirectory, TCsv, TPng, TGzip}

ArgElems == UNION { UNION { { Elem("arg", o, t, s, IF s = "=" THEN DefaultLit(t) ELSE NoLit, "") : s \in SufsFor(t, o) }
                            : t \in ArgTypes } : o \in Opts }
FlagElems == { Elem("flag", f, NoType, "", NoLit, "") : f \in Flags }
             \cup { Elem("flag", f, NoType, "=", Lit(IF b THEN "True" ELSE "False", BoolV(b)), "") : f \in Flags, b \in BOOLEAN }
OutElems == UNION { { Elem("out", o, t, "", NoLit, ""), Elem("out", o, t, "?", NoLit, ""),
                      Elem("out", o, t, "$", NoLit, "res_1" \o (IF t.ext = "" THEN ".dat" ELSE t.ext)) }
                    : o \in Opts, t \in OutTypes }
FullMenu == ArgElems \cup FlagElems \cup OutElems

(* one representative of every documented construct *)
CoreMenu ==
  { Elem("arg", "", NoType, "", NoLit, ""),                     \* <n>
    Elem("arg", "", TInt, "", NoLit, ""),                       \* <n:int>
    Elem("arg", "", TStr, "?", NoLit, ""),                      \* <n:str?>
    Elem("arg", "", TFile, "+", NoLit, ""),                     \* <n:file+>
    Elem("arg", "-o", TInt, "*", NoLit, ""),                    \* -o <n:int*>
    Elem("arg", "", TFloat, "=", DefaultLit(TFloat), ""),       \* <n:float=0.25>
    Elem("arg", "-o", NoType, "", NoLit, ""),                   \* -o <n>
    Elem("arg", "--long-opt", TIntStr, "?", NoLit, ""),         \* --long-opt <n:int,str?>
    Elem("flag", "-v", NoType, "", NoLit, ""),                  \* -v<n>
    Elem("flag", "--dry-run", NoType, "=", Lit("True", BoolV(TRUE)), ""),  \* --dry-run<n=True>
    Elem("out", "", NoType, "", NoLit, ""),                     \* <out|n>
    Elem("out", "--long-opt", TCsv, "?", NoLit, ""),            \* --long-opt <out|n:text/csv?>
    Elem("out", "", TGzip, "$", NoLit, "zipped.gz") }           \* <out|n:application/gzip$zipped.gz>
=============================================================================
