------------------------------ MODULE Shipping ------------------------------
(* C29: a job (task, submitter, worker) and its result survive serialization to *)
(* another process.  Ship is a STUTTERING step on the projection                *)
(* [checksum, field digests, cache root, read-only caches, environment, worker  *)
(* parameters]; the run of the shipped job yields the outputs of the original;  *)
(* the result written by the worker process is read back equal.                 *)
(* Trace validation (M4): one ndjson line per shipped object:                   *)
(*   {"tid", "ev": [{"a": "Project"|"Ship"|"Run"|"ReadBack", "where", "p", "out"}]} *)
EXTENDS Naturals, Sequences, TLC, Json, IOUtils
Traces == ndJsonDeserialize(IOEnv.TRACE_FILE)
VARIABLES tid, l, verdict, where, proj, out
vars == <<tid, l, verdict, where, proj, out>>
T == Traces[tid]
Ev == T.ev
None == "none"
Init == tid \in 1..Len(Traces) /\ l = 1 /\ verdict = <<"run">> /\ where = "parent" /\ proj = None /\ out = None
Project(e) == /\ e.a = "Project" /\ e.where = where
              /\ (proj = None \/ proj = e.p)            \* the projection never changes ...
              /\ proj' = e.p /\ UNCHANGED <<where, out>>
Ship(e) ==    /\ e.a = "Ship" /\ proj # None
              /\ where' = (IF where = "parent" THEN "child" ELSE "parent")
              /\ UNCHANGED <<proj, out>>                  \* ... in particular not by shipping
Run(e) ==     /\ e.a = "Run" /\ where = "child" /\ proj # None
              /\ out' = e.out /\ UNCHANGED <<where, proj>>
ReadBack(e) == /\ e.a = "ReadBack" /\ where = "parent" /\ out # None
               /\ e.out = out                             \* the parent reads what the worker wrote
               /\ UNCHANGED <<where, proj, out>>
Reference(e) == /\ e.a = "Reference" /\ out # None /\ e.out = out   \* = what the unshipped job computes
                /\ UNCHANGED <<where, proj, out>>
Act(e) == Project(e) \/ Ship(e) \/ Run(e) \/ ReadBack(e) \/ Reference(e)
Next == /\ verdict = <<"run">> /\ l <= Len(Ev)
        /\ \/ /\ Act(Ev[l]) /\ l' = l + 1 /\ tid' = tid
              /\ verdict' = IF l + 1 > Len(Ev) THEN <<"accepted">> ELSE <<"run">>
           \/ /\ ~ENABLED Act(Ev[l]) /\ UNCHANGED <<tid, l, where, proj, out>>
              /\ verdict' = <<"rejected", l, Ev[l].a>>
Spec == Init /\ [][Next]_vars
ShipPreservesProjection == [][where' # where => proj' = proj]_vars
Report == (verdict # <<"run">> \/ l > Len(Ev)) => PrintT(ToJson([tid |-> T.tid, verdict |-> verdict, l |-> l]))
=============================================================================
