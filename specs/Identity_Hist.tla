---------------------------- MODULE Identity_Hist ----------------------------
(* C06, modes M1 + M3: histories of submissions into ONE cache root of a pair *)
(* of tasks A, B that differ in exactly one aspect.                           *)
(*                                                                           *)
(* The ideal cache (Identity!cache) is keyed by the full semantic key and is  *)
(* driven by Identity!Submit; next to it runs the as-built cache, keyed by    *)
(* the key with the aspects projected away by the switches in AsBuilt.        *)
(* M1: with AsBuilt = {} the as-built cache is the ideal one and the          *)
(*     invariants hold; with the switches the current code needs, TLC shows   *)
(*     the stale hit (expected counterexample = the known finding).           *)
(* M3: every history of exactly MaxLen submissions is emitted with the ideal  *)
(*     and the as-built expectation per step; the driver executes it on the   *)
(*     real pydra and Identity_Trace validates the recorded events.           *)
EXTENDS Identity, Json
CONSTANTS AspectSet,   \* subset of Identity!Aspects
          MaxLen,
          AsBuilt      \* subset of Identity!Switches

VARIABLES aspect, h, cacheB
hvars == <<ivars, aspect, h, cacheB>>

HInit == /\ IInit
         /\ aspect \in AspectSet
         /\ h = << >>
         /\ cacheB = Empty

SubmitTask(w) ==
  LET key  == TaskKey(aspect, w)
      kab  == KeyS(key, AsBuilt)
      hit  == key \in DOMAIN cache        \* FoundByNext and HitOnlyAfterEqualKey together decide hit
      hitB == kab \in DOMAIN cacheB
      outB == IF hitB THEN cacheB[kab] ELSE w
  IN /\ Submit(key, hit, w, w)            \* the ideal step: executing task w now returns (label) w
     /\ cacheB' = Bind(cacheB, kab, outB)
     /\ h' = Append(h, [task |-> w, key |-> key,
                        ideal   |-> [hit |-> hit,  out |-> w],
                        asbuilt |-> [hit |-> hitB, out |-> outB]])

HNext == /\ Len(h) < MaxLen
         /\ \E w \in {"A", "B"} : SubmitTask(w)
         /\ UNCHANGED aspect

HSpec == HInit /\ [][HNext]_hvars

(* design-level properties of the identity in use (the as-built one) *)
HitReturnsFresh      == \A i \in 1..Len(h) : h[i].asbuilt.hit => h[i].asbuilt.out = h[i].task
HitOnlyAfterEqualKey == \A i \in 1..Len(h) : h[i].asbuilt.hit => \E j \in 1..(i - 1) : h[j].task = h[i].task
ReuseComplete        == \A i \in 1..Len(h) : (\E j \in 1..(i - 1) : h[j].task = h[i].task) => h[i].asbuilt.hit
IdealIsIdeal         == \A i \in 1..Len(h) : h[i].ideal.out = h[i].task /\
                                              (h[i].ideal.hit <=> \E j \in 1..(i - 1) : h[j].task = h[i].task)

Emit == (Len(h) = MaxLen) => PrintT(ToJson([aspect |-> aspect, h |-> h]))
=============================================================================
