---------------------------- MODULE WfState_Eval ----------------------------
(* Mode M2 for WfState: the workflow records come from an ndjson file (enumerated /   *)
(* sampled by the harness: the space of records is a product too large for Init);    *)
(* TLC evaluates the reference semantics on each and prints the expected outputs.    *)
EXTENDS WfState, Json, IOUtils
Cases == ndJsonDeserialize(IOEnv.TRACE_FILE)
VARIABLE tid
Init == tid \in 1..Len(Cases)
Next == FALSE /\ UNCHANGED tid
ToSrc(s) == [k |-> s.k, v |-> s.v]
ToNode(n) == [name |-> n.name, x |-> ToSrc(n.x), y |-> ToSrc(n.y), hassplit |-> n.hassplit, split |-> n.split, inner |-> n.inner, mk |-> n.mk, z |-> ToSrc(n.z),
              comb |-> [k \in 1..Len(n.comb) |-> <<n.comb[k][1], n.comb[k][2]>>]]
ToWf(c) == [ins |-> c.ins, nodes |-> [k \in 1..Len(c.nodes) |-> ToNode(c.nodes[k])], outs |-> c.outs]
Emit == PrintT(ToJson([tid |-> Cases[tid].tid, res |-> Result(ToWf(Cases[tid]))]))
=============================================================================
