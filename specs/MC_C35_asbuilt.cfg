SPECIFICATION Spec
CONSTANTS
  Procs = {p1}
  ROSeq <- NoRO
  MaxSubs = 1
  RerunAllowed <- OnlyFalse
  BodyOutcomes <- OkOnly
  CrashBudget = 0
  RaiseBudget = 1
  LeftoverRoot <- OnlyAbsent
  LeftoverRO <- OnlyAbsent
  FirstExistingDirDecides = FALSE
  TryStartsLate = TRUE
INVARIANT CwdRestored
INVARIANT InfoRemoved
INVARIANT DirHasJobAndResult
CHECK_DEADLOCK FALSE
