---------------------------- MODULE FileHash_Gen ----------------------------
(* Model constants for FileHash (M1) and behaviour emission (M3).           *)
(* 2 paths, 3 contents (A and B of equal size, C of a different size --     *)
(* sizes matter only on the real file system), 2 processes.                 *)
EXTENDS FileHash, Json

MCPaths    == {"p1", "p2"}
MCContents == {"A", "B", "C"}
MCProcs    == {"q1", "q2"}
MCInitFile == [p \in MCPaths |-> [c |-> IF p = "p1" THEN "A" ELSE "B", m |-> 1]]
AllOps     == {"Write", "WriteKeepMtime", "SetMtime", "RenameOver", "CopyPreserve", "Hash"}
GuardOps   == {"Write", "WriteKeepMtime", "Hash", "Tick"}
GuardAllOps == AllOps \cup {"Tick"}

NHash == Cardinality({ i \in 1..Len(h) : h[i].op = "Hash" })
(* M3: emit every behaviour of exactly MaxOps operations that ends with a Hash and hashes at *)
(* least twice (a single Hash of an empty cache cannot be stale)                              *)
Emit == (Len(h) = MaxOps /\ Last.op = "Hash" /\ NHash >= 2) =>
           PrintT(ToJson([init |-> MCInitFile, h |-> h]))
(* shorter behaviours are emitted by runs with a smaller MaxOps *)
=============================================================================
