-------------------------- MODULE Provenance_Trace --------------------------
(* Mode M4 for C36: the provenance messages written by a FileMessenger, put in  *)
(* the order of the audit_started / audit_finalized hook events and attributed  *)
(* to jobs through the activity id the job held at that point, are checked      *)
(* against Provenance: Start = Provenance!Start with the logged (fresh) id,     *)
(* End = Provenance!End, which demands the job's own id and its result flag.    *)
(* line: {"tid", "jobs": [..], "parent": {job: parent|"none"}, "failing": [..], *)
(*        "ev": [{"a": "start"|"end"|"orphan"|"missing", "job", "id", "errored"}]} *)
EXTENDS Naturals, Sequences, FiniteSets, TLC, Json, IOUtils
Traces == ndJsonDeserialize(IOEnv.TRACE_FILE)
VARIABLES tid, l, verdict, phase, aid, recs
tvars == <<tid, l, verdict, phase, aid, recs>>
T == Traces[tid]
Ev == T.ev
JobsT == {T.jobs[i] : i \in 1..Len(T.jobs)}
FailingT == {T.failing[i] : i \in 1..Len(T.failing)}
ChildrenT(j) == {c \in JobsT : T.parent[c] = j}
ErroredT(j) == j \in FailingT \/ \E c \in ChildrenT(j) : c \in FailingT
Init == /\ tid \in 1..Len(Traces) /\ l = 1 /\ verdict = <<"run">>
        /\ phase = [j \in {Traces[tid].jobs[i] : i \in 1..Len(Traces[tid].jobs)} |-> "idle"]
        /\ aid = [j \in {Traces[tid].jobs[i] : i \in 1..Len(Traces[tid].jobs)} |-> 0]
        /\ recs = <<>>
Start(e) == /\ e.a = "start" /\ e.job \in JobsT /\ phase[e.job] = "idle"
            /\ (IF T.parent[e.job] = "none" THEN TRUE ELSE phase[T.parent[e.job]] = "started")
            /\ \A j \in JobsT : aid[j] # e.id            \* a fresh activity id
            /\ phase' = [phase EXCEPT ![e.job] = "started"] /\ aid' = [aid EXCEPT ![e.job] = e.id]
            /\ recs' = Append(recs, [kind |-> "start", id |-> e.id])
End(e) ==   /\ e.a = "end" /\ e.job \in JobsT /\ phase[e.job] = "started"
            /\ e.id = aid[e.job]                          \* the end record carries the job's own id
            /\ e.errored = ErroredT(e.job)                \* and the job's result
            /\ phase' = [phase EXCEPT ![e.job] = "ended"] /\ UNCHANGED aid
            /\ recs' = Append(recs, [kind |-> "end", id |-> e.id])
Act(e) == Start(e) \/ End(e)
Next == /\ verdict = <<"run">> /\ l <= Len(Ev)
        /\ \/ /\ Act(Ev[l]) /\ l' = l + 1 /\ tid' = tid
              /\ verdict' = IF l + 1 > Len(Ev)
                            THEN (IF \A j \in JobsT : phase'[j] # "started" THEN <<"accepted">> ELSE <<"unfinished">>)
                            ELSE <<"run">>
           \/ /\ ~ENABLED Act(Ev[l]) /\ UNCHANGED <<tid, l, phase, aid, recs>>
              /\ verdict' = <<"rejected", l, Ev[l].a, Ev[l].job>>
Spec == Init /\ [][Next]_tvars
Report == (verdict # <<"run">> \/ l > Len(Ev)) => PrintT(ToJson([tid |-> T.tid, verdict |-> verdict, l |-> l]))
=============================================================================
