------------------------- MODULE SplitAlgebra_Gen -------------------------
(* Case generator (mode M2): one initial state per case, expected values    *)
(* printed as JSON for the replayer.  Also checks the spec-level theorems   *)
(* over the whole enumeration (Theorems invariant).                         *)
EXTENDS SplitAlgebra, Json
CONSTANTS Fields,       \* set of field names
          MinLen, MaxLen,
          Mode,         \* "expand" | "combine" | "spelling"
          MinFields,    \* only trees over at least this many fields
          Shard, NShards

VARIABLES tree, lens, comb
vars == <<tree, lens, comb>>

FieldSeqs == UNION { Perms(S) : S \in { X \in SUBSET Fields : Cardinality(X) >= MinFields } }
SeqList   == SetToSeq(FieldSeqs)
MySeqs    == { SeqList[i] : i \in { j \in 1..Len(SeqList) : j % NShards = Shard } }

CandTrees(p) == IF Mode = "spelling" THEN UNION { Wraps(t) : t \in Trees(p) } ELSE Trees(p)

Init == /\ \E p \in MySeqs : tree \in CandTrees(p)
        /\ lens \in [Range(FieldsOf(tree)) -> MinLen..MaxLen]
        /\ comb \in IF Mode = "combine" THEN (SUBSET Range(FieldsOf(tree))) \ {{}} ELSE {{}}
Next == FALSE /\ UNCHANGED vars

Ok  == WellShaped(tree, lens)
Case ==
  [ t      |-> tree,
    l      |-> lens,
    c      |-> SetToSeq(comb),
    ok     |-> Ok,
    fok    |-> FlatOk(tree, lens),
    norm   |-> Normalize(tree),
    jobs   |-> IF Ok THEN Expand(tree, lens) ELSE <<>>,
    groups |-> IF Ok /\ comb # {} THEN Groups(tree, lens, comb) ELSE <<>>,
    rem    |-> IF Ok THEN SetToSeq(Remaining(tree, comb)) ELSE <<>>,
    flat   |-> IF Ok THEN FlatOutput(tree, comb) ELSE FALSE ]
Emit == PrintT(ToJson(Case))

(* spec-level theorems, evaluated on every enumerated case *)
Theorems ==
  /\ Ok <=> WellShaped(Normalize(tree), lens)
  /\ Ok => Expand(tree, lens) = Expand(Normalize(tree), lens)
  /\ Ok => Len(Expand(tree, lens)) = FlatLen(tree, lens)
  /\ (Ok /\ comb # {}) =>
        LET gs == Groups(tree, lens, comb) IN
        /\ IsOrderedPartition(gs, Len(Expand(tree, lens)))
        /\ Groups(Normalize(tree), lens, comb) = gs
        /\ (FlatOutput(tree, comb) /\ gs # <<>> => Len(gs) = 1)
  /\ Ok => \A i, j \in 1..Len(Expand(tree, lens)) : i # j => Expand(tree, lens)[i] # Expand(tree, lens)[j]
=============================================================================
