-------------------------- MODULE CmdTemplate_Gen --------------------------
(* Case generator for C25.                                                  *)
(*  Mode "enum": one initial state per (element sequence of LenLo..LenHi     *)
(*               elements, value pattern); exhaustive over the chosen menu  *)
(*               (sharded).                                                 *)
(*  Mode "walk": the grammar as a state machine -- a template grows by one  *)
(*               element per step; used with `-simulate` to sample          *)
(*               templates of MinEmit..MaxLen elements from the full menu.  *)
(* Every emitted state prints the template text, the expected field table   *)
(* and the expected argv computed by CmdTemplate.                           *)
EXTENDS CmdTemplate, Json, SequencesExt
CONSTANTS Mode,        \* "enum" | "walk"
          MenuName,    \* "full" | "core" | "mixed" (position 1 from the full menu, rest core)
          LenLo, LenHi,      \* enum: numbers of elements (sequences of < 2 elements are never sharded)
          MinEmit, MaxLen,   \* walk: emit states with MinEmit..MaxLen elements
          Shard, NShards

VARIABLES seq, pat
vars == <<seq, pat>>

MenuSet == IF MenuName = "core" THEN CoreMenu ELSE FullMenu
Menu    == SetToSeq(MenuSet)
Core    == SetToSeq(CoreMenu)
N       == Len(Menu)
NAt(i)  == IF MenuName = "mixed" /\ i > 1 THEN Len(Core) ELSE N
At(i, j) == IF MenuName = "mixed" /\ i > 1 THEN Core[j] ELSE Menu[j]

(* value patterns: which elements the caller supplies everything for *)
Patterns(n) == IF n = 0 THEN {"min"} ELSE IF n = 1 THEN {"min", "max"} ELSE {"min", "max", "odd", "even"}
IsSet(p, i) == CASE p = "min" -> FALSE [] p = "max" -> TRUE [] p = "odd" -> i % 2 = 1 [] OTHER -> i % 2 = 0

RECURSIVE Mix(_, _)
Mix(ix, i) == IF i > Len(ix) THEN 0 ELSE (ix[i] * (2 * i + 5) + Mix(ix, i + 1)) % 1000003

(* index sequences of length L (position i ranges over 1..NAt(i)), restricted to this shard *)
AllIndexSeqs(L) ==
  IF MenuName = "mixed" /\ L >= 2
  THEN { <<a>> \o r : a \in 1..N, r \in [1..(L - 1) -> 1..Len(Core)] }
  ELSE [1..L -> 1..N]
IndexSeqs(L) == { ix \in AllIndexSeqs(L) : L < 2 \/ Mix(ix, 1) % NShards = Shard }

Init == IF Mode = "enum"
        THEN \E L \in LenLo..LenHi :
               /\ \E ix \in IndexSeqs(L) : seq = [i \in 1..L |-> At(i, ix[i])]
               /\ pat \in Patterns(L)
        ELSE /\ seq = <<>>
             /\ pat \in Patterns(2)

Next == IF Mode = "enum" THEN FALSE /\ UNCHANGED vars
        ELSE /\ Len(seq) < MaxLen
             /\ seq' = Append(seq, RandomElement(MenuSet))   \* one random successor per step
             /\ UNCHANGED pat

(* one- or two-word executable, tied to the pattern so that both occur everywhere *)
Exec == IF pat \in {"max", "even"} THEN <<"vdump", "sub">> ELSE <<"vdump">>
Vals == [i \in 1..Len(seq) |-> Supplied(seq[i], FieldNames[i], IsSet(pat, i))]

Case ==
  [ tpl     |-> TemplateText(Exec, seq),
    exec    |-> Exec,
    n       |-> Len(seq),
    pat     |-> pat,
    fields  |-> [i \in 1..Len(seq) |-> Field(seq[i], FieldNames[i], i)],
    vals    |-> [i \in 1..Len(seq) |-> [name |-> FieldNames[i], v |-> Vals[i]]],
    argv    |-> Argv(Exec, seq, Vals),
    open    |-> ArgvOpen(seq),
    known   |-> IF AsBuiltClass(seq) THEN "C25-untyped-output-after-option" ELSE "",
    asbuilt |-> IF AsBuiltClass(seq) THEN ArgvAsBuilt(Exec, seq, Vals) ELSE <<>> ]

Emits == Mode = "enum" \/ (Len(seq) >= MinEmit /\ Len(seq) <= MaxLen)
Emit  == IF Emits THEN PrintT(ToJson(Case)) ELSE TRUE

(* spec-level sanity theorems, evaluated on every enumerated case *)
NoneSet  == [i \in 1..Len(seq) |-> Supplied(seq[i], FieldNames[i], FALSE)]
IsPrefix_(a, b) == Len(a) <= Len(b) /\ SubSeq(b, 1, Len(a)) = a
Theorems ==
  LET fs == [i \in 1..Len(seq) |-> Field(seq[i], FieldNames[i], i)] IN
  /\ Len(seq) <= Len(FieldNames)
  /\ \A i, j \in 1..Len(fs) : i # j => fs[i].name # fs[j].name
  /\ \A i \in 1..Len(fs) : fs[i].order = i
  /\ IsPrefix_(Exec, Argv(Exec, seq, Vals))                           \* the executable comes first
  /\ \A i \in 1..Len(fs) : (fs[i].optional => fs[i].default = NoneV)  \* '?' means default None
  /\ \A i \in 1..Len(fs) : (fs[i].kind = "outarg") = (fs[i].tmpl # "")  \* exactly the outputs carry a path template
  /\ \A i \in 1..Len(seq) :                                            \* every option text is printed when its value is
        (seq[i].opt # "" /\ Contribution(seq[i], FieldNames[i], Vals[i]) # <<>>)
            => Contribution(seq[i], FieldNames[i], Vals[i])[1] = seq[i].opt
  /\ \A i \in 1..Len(seq) :                                            \* optional / zero-or-more fields left out print nothing
        (seq[i].kind # "flag" /\ seq[i].suf \in {"?", "*"}) => Contribution(seq[i], FieldNames[i], NoneSet[i]) = <<>>
  /\ (~AsBuiltClass(seq)) => ArgvAsBuilt(Exec, seq, Vals) = Argv(Exec, seq, Vals)   \* the as-built switch is confined to its class
=============================================================================
