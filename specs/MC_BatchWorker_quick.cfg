\* M1 design check (quick): every option string x every response sequence of length <= 3
SPECIFICATION Spec
CONSTANTS
  Kinds = {"slurm", "sge"}
  Modes = {"intended"}
  MaxPolls = 3
  ExhLen = 3
  SampleMod = 1
  Seed = 0
  OptPlan = "all"
INVARIANT Inv
CHECK_DEADLOCK FALSE
