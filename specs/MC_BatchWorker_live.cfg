\* M1 liveness: every submission reaches a verdict, interrupted jobs are polled again
SPECIFICATION Spec
CONSTANTS
  Kinds = {"slurm", "sge"}
  Modes = {"intended"}
  MaxPolls = 2
  ExhLen = 2
  SampleMod = 1
  Seed = 0
  OptPlan = "few"
INVARIANT Inv
PROPERTY Terminates
PROPERTY KeepsPolling
CHECK_DEADLOCK FALSE
