------------------------------ MODULE Identity ------------------------------
(* Cache identity as a RELATION between semantic keys and observed digests   *)
(* (properties C06, C07, C08).                                               *)
(*                                                                           *)
(* The module never computes a hash.  It says what a hash / checksum / cache *)
(* directory name must be *as a relation*:                                   *)
(*   Deterministic  equal keys      => equal digests, in every configuration *)
(*                  (interpreter process, PYTHONHASHSEED, insertion order,    *)
(*                  pickling round trip, worker, cache-root path)             *)
(*   ContextFree    ... and whatever else was hashed alongside in the call    *)
(*   Injective      equal digests   => equal keys                             *)
(*   HitReturnsFresh a submission answered from the cache returns what        *)
(*                  executing that task now returns; a hit is possible only   *)
(*                  after a submission with an EQUAL key into the same root   *)
(*   FoundByNext    after a submission of a key into a root, the next         *)
(*                  submission of an equal key into that root is a hit        *)
(*                                                                           *)
(* A key is the *canonical value term*: the value as the property statement   *)
(* describes it (type + content, nesting structure, array shape and dtype,    *)
(* function body + captured values, command-line metadata).  Keys are built   *)
(* HERE, by TLA+, from a serialised term: a Python set serialised in          *)
(* iteration order becomes a TLA+ set, a dict a set of pairs, a list a        *)
(* sequence.  Order-insensitivity of sets/dicts and structural distinctness   *)
(* are therefore TLA+'s own equality, nothing resembling the implementation.  *)
(*                                                                           *)
(* As-built switches (DESIGN section 7): CanonS(t, S) is the key with the     *)
(* deviations named in S applied.  With S = {} it is the ideal key.  A switch *)
(* does not tolerate a deviation, it PREDICTS it: the as-built relation must  *)
(* again be a bijection between as-built keys and digests.                    *)
EXTENDS Naturals, Sequences, FiniteSets, TLC

Switches == { "numpy-shape-dtype",          \* array digest = f(class, size, raw C-order bytes)
              "set-sorted-partial-order",   \* set digest = f(elements in Python's sorted() order)
              "closure-value",              \* function digest ignores captured cell values
              "shell-field-metadata",       \* task digest ignores argstr/position/sep/formatter
              "generic-alias-args",         \* digest of list[int], dict[str, int], ... ignores the arguments
              "stateless-objects-alike" }   \* objects without Python-level state (built-ins, ufuncs, partials) hash by type only

ScalarKinds == {"int", "float", "complex", "bool", "str", "bytes", "none", "ellipsis"}

SeqRange(s) == { s[i] : i \in 1..Len(s) }

(***************************************************************************)
(* Python's list.sort() on a short list (n < 64) whose "<" is only a       *)
(* partial order (here: proper subset between frozensets).  CPython 3.12:  *)
(* count the initial run (non-descending, or strictly descending which is  *)
(* then reversed), binary-insert the remaining elements.  E is the         *)
(* sequence of the elements' ideal keys (TLA+ sets), the result is the     *)
(* permutation of 1..Len(E) that sorted() produces.                        *)
(***************************************************************************)
PyLt(x, y) == x \subseteq y /\ x # y

RunLen(E) ==    \* <<length of the initial run, descending?>>
  LET n == Len(E) IN
  IF n <= 1 THEN <<n, FALSE>>
  ELSE IF PyLt(E[2], E[1])
       THEN << CHOOSE m \in 2..n : /\ \A k \in 2..m : PyLt(E[k], E[k-1])
                                   /\ (m = n \/ ~PyLt(E[m+1], E[m])), TRUE >>
       ELSE << CHOOSE m \in 2..n : /\ \A k \in 2..m : ~PyLt(E[k], E[k-1])
                                   /\ (m = n \/ PyLt(E[m+1], E[m])), FALSE >>

RECURSIVE BinPos(_, _, _, _, _)
BinPos(E, sp, piv, l, r) ==      \* 0-based insertion point of index piv in sorted prefix sp
  IF l >= r THEN l
  ELSE LET p == l + ((r - l) \div 2) IN
       IF PyLt(E[piv], E[sp[p + 1]]) THEN BinPos(E, sp, piv, l, p) ELSE BinPos(E, sp, piv, p + 1, r)

RECURSIVE BinSort(_, _, _)
BinSort(E, sp, i) ==
  IF i > Len(E) THEN sp
  ELSE LET pos == BinPos(E, sp, i, 0, Len(sp)) IN
       BinSort(E, SubSeq(sp, 1, pos) \o <<i>> \o SubSeq(sp, pos + 1, Len(sp)), i + 1)

PySortPerm(E) ==
  LET rl  == RunLen(E)
      m   == rl[1]
      run == IF rl[2] THEN [j \in 1..m |-> m + 1 - j] ELSE [j \in 1..m |-> j]
  IN BinSort(E, run, m + 1)

(***************************************************************************)
(* Canonical keys.  Every key is a record [k, v]; TLC compares k first, so *)
(* keys of different kinds are comparable without type errors.             *)
(***************************************************************************)
RECURSIVE CanonS(_, _)
CanonSeq(s, S)  == [i \in 1..Len(s) |-> CanonS(s[i], S)]
CanonSet(s, S)  == { CanonS(s[i], S) : i \in 1..Len(s) }
CanonMap(s, S)  == { <<CanonS(s[i][1], S), CanonS(s[i][2], S)>> : i \in 1..Len(s) }
NamedMap(s, S)  == { <<s[i][1], CanonS(s[i][2], S)>> : i \in 1..Len(s) }   \* names are plain strings

CanonS(t, S) ==
  CASE t.k \in ScalarKinds -> [k |-> t.k, v |-> t.v]
    [] t.k \in {"list", "tuple"} -> [k |-> t.k, v |-> CanonSeq(t.v, S)]
    [] t.k \in {"set", "frozenset"} ->
         IF /\ "set-sorted-partial-order" \in S
            /\ Len(t.v) > 0
            /\ \A i \in 1..Len(t.v) : t.v[i].k = "frozenset"
         THEN \* as built: the elements in the order Python's sorted() leaves them in,
              \* starting from the iteration order the term was serialised in
              LET E    == [i \in 1..Len(t.v) |-> CanonS(t.v[i], {}).v]
                  perm == PySortPerm(E)
              IN [k |-> IF t.k = "set" THEN "set/sorted" ELSE "frozenset/sorted",
                  v |-> [j \in 1..Len(perm) |-> CanonS(t.v[perm[j]], S)]]
         ELSE [k |-> t.k, v |-> CanonSet(t.v, S)]
    [] t.k = "dict" -> [k |-> "dict", v |-> CanonMap(t.v, S)]
    [] t.k = "ndarray" ->
         IF "numpy-shape-dtype" \in S
         THEN [k |-> "ndarray", v |-> <<t.cls, t.size, t.raw>>]
         ELSE [k |-> "ndarray", v |-> <<t.cls, t.dtype, t.shape, t.v>>]
    [] t.k = "type" ->    \* a type is its name; alias = "builtin" for PEP 585 aliases such as list[int]
         IF "generic-alias-args" \in S /\ t.alias = "builtin"
         THEN [k |-> "type", v |-> <<"builtin-alias-of", t.origin>>]
         ELSE [k |-> "type", v |-> <<t.v>>]
    [] t.k = "path" -> [k |-> "path", v |-> <<t.cls, t.v>>]
    [] t.k = "file" -> [k |-> "file", v |-> <<t.cls, t.content>>]
    [] t.k = "obj"  -> [k |-> "obj",  v |-> <<t.cls, NamedMap(t.v, S)>>]
    [] t.k = "func" ->
         IF "closure-value" \in S
         THEN [k |-> "func", v |-> <<t.v, {}>>]
         ELSE [k |-> "func", v |-> <<t.v, NamedMap(t.cells, S)>>]
    [] t.k = "cfunc" ->    \* a callable without Python-level state: built-in function, method descriptor, numpy ufunc,
                           \* operator.itemgetter - it is the global it names (with its arguments)
         IF "stateless-objects-alike" \in S
         THEN [k |-> "cfunc", v |-> <<t.cls>>]            \* as first built: only the type of such an object was hashed
         ELSE [k |-> "cfunc", v |-> <<t.cls, t.v>>]
    [] t.k = "partial" ->  \* functools.partial(fn, *args): the function and the bound arguments
         IF "stateless-objects-alike" \in S
         THEN [k |-> "partial", v |-> <<>>]
         ELSE [k |-> "partial", v |-> <<CanonS(t.fn, S), CanonSeq(t.v, S)>>]
    [] t.k = "task" ->     \* a task used as a value (e.g. the `defn` of a split)
         [k |-> "task", v |-> <<t.cls, NamedMap(t.v, S), CanonS(t.splitter, S), CanonS(t.combiner, S),
                                CanonS(t.ndim, S), CanonS(t.xor, S)>>]
    [] t.k = "call" ->     \* a task submission: definition + inputs (the cache identity)
         [k |-> "call", v |-> <<t.defn, NamedMap(t.v, S)>>]
    [] OTHER -> Assert(FALSE, <<"unknown term kind", t>>)

Canon(t) == CanonS(t, {})

(***************************************************************************)
(* Semantic keys of *task definitions* for the C06 histories: a record of  *)
(* aspects.  Two tasks of a pair differ in exactly one aspect.             *)
(***************************************************************************)
Aspects == { "body", "closure", "default", "executable", "argstr", "position", "sep", "formatter",
             "value", "vtype", "container", "shape", "dtype" }

ProjectedBy(s) ==         \* aspects a switch makes invisible to the identity
  CASE s = "closure-value"        -> {"closure"}
    [] s = "numpy-shape-dtype"    -> {"shape", "dtype"}
    [] s = "shell-field-metadata" -> {"argstr", "position", "sep", "formatter"}
    [] OTHER -> {}
Projected(S) == UNION { ProjectedBy(s) : s \in S }

BaseKey == [a \in Aspects |-> "base"]
TaskKey(aspect, which) == IF which = "A" THEN BaseKey ELSE [BaseKey EXCEPT ![aspect] = "alt"]
KeyS(key, S) == [a \in Aspects |-> IF a \in Projected(S) THEN "*" ELSE key[a]]

(***************************************************************************)
(* The relational state machine.                                           *)
(*   idOf   : Key -|-> [d: Digest, ...]   first observation binds           *)
(*   keyOf  : Digest -|-> [key: Key, ...]                                   *)
(*   cache  : Key -|-> Output       one cache root, keyed by the FULL key   *)
(* The environment (the implementation under observation) proposes         *)
(* Observe(key, cfg, d) and Submit(key, hit, out) steps; a step the        *)
(* relation does not admit is a violation of the named invariant.  The     *)
(* trace module (Identity_Trace) evaluates these guards in monitor style.  *)
(***************************************************************************)
VARIABLES idOf, keyOf, cache
ivars == <<idOf, keyOf, cache>>

Empty == << >>        \* the empty function

IInit == idOf = Empty /\ keyOf = Empty /\ cache = Empty

DetOK(rel, key, d)  == key \notin DOMAIN rel \/ rel[key].d = d
InjOK(inv, key, d)  == d \notin DOMAIN inv \/ inv[d].key = key

Bind(f, x, y) == IF x \in DOMAIN f THEN f ELSE f @@ (x :> y)

Observe(key, d, info) ==
  /\ DetOK(idOf, key, d)         \* Deterministic (and ContextFree: cfg is not consulted)
  /\ InjOK(keyOf, key, d)        \* Injective
  /\ idOf'  = Bind(idOf, key, [d |-> d] @@ info)
  /\ keyOf' = Bind(keyOf, d, [key |-> key] @@ info)
  /\ UNCHANGED cache

(* Submit of a deterministic task with semantic key `key` whose execution  *)
(* now would return Fresh.  hit = the body was not executed.               *)
HitAllowed(c, key)        == key \in DOMAIN c
ReturnOK(c, key, hit, out, fresh) == IF hit THEN out = c[key] ELSE out = fresh
Submit(key, hit, out, fresh) ==
  /\ hit => HitAllowed(cache, key)                 \* no hit for a key never submitted
  /\ hit => out = cache[key]
  /\ out = fresh                                   \* HitReturnsFresh (and a miss returns what it computed)
  /\ cache' = Bind(cache, key, out)
  /\ UNCHANGED <<idOf, keyOf>>

FoundByNext(c, key, hit) == key \in DOMAIN c => hit
=============================================================================
