--------------------------- MODULE MC_Provenance ---------------------------
EXTENDS Provenance
JSingle == {"main"}
PSingle == [j \in {"main"} |-> "none"]
JWf == {"main", "a", "b"}
PWf == [j \in {"main", "a", "b"} |-> IF j = "main" THEN "none" ELSE "main"]
FNone == {}
FA == {"a"}
FMain == {"main"}
=============================================================================
