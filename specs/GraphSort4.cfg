SPECIFICATION Spec
CONSTANTS
  Nodes = {"a", "b", "c", "d"}
  NoProgressCheck = FALSE
INVARIANT SortedIsTopological
INVARIANT ErrorIffCyclic
INVARIANT Emit
PROPERTY Terminates
CHECK_DEADLOCK FALSE
