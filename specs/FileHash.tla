------------------------------ MODULE FileHash ------------------------------
(* C09: file hashes always reflect current file content.                     *)
(*                                                                           *)
(* Files have a content and a modification time; a persistent hash cache is  *)
(* shared by all processes (a directory), each process may in addition hold  *)
(* an in-memory memo.  Hash(proc, p) must return H(content of p now).        *)
(*                                                                           *)
(* KeyMode selects the cache key (named switch, DESIGN section 7):           *)
(*   "ideal"    the key determines the content (no stale entry can be hit)   *)
(*   "asbuilt"  key = <<path, mtime>> -- what pydra/utils/hash.py uses; TLC  *)
(*              finds the stale digest (the known finding), and the very     *)
(*              same model PREDICTS which digest the real code returns       *)
(*   "docguard" key = <<path, mtime>>, but entries are stored / used only    *)
(*              once the mtime resolution period has lapsed since the file   *)
(*              was modified -- the guard promised in                        *)
(*              docs/source/explanation/hashing-caching.rst (not in the      *)
(*              code); TLC shows which histories even that guard misses      *)
(* H is modelled as the identity on content labels (equal content <=> equal  *)
(* hash is the job of C08, not of this module).                              *)
EXTENDS Naturals, Sequences, FiniteSets, TLC
CONSTANTS Paths, Contents, Procs, KeyMode, MaxOps, MemoLives,
          Ops,          \* set of enabled operation names
          CoarseOnly,   \* TRUE: WriteKeepMtime only within the resolution period (a rapid rewrite), never a restored stamp
          InitFile      \* initial [Paths -> [c, m]]

Absent == "absent"
H(c) == c

VARIABLES file,    \* [Paths -> [c: Contents \cup {Absent}, m: Nat]]
          clock,   \* time, in units of the mtime resolution; a plain write stamps clock + 1
          pcache,  \* persistent cache: key -|-> hash
          memo,    \* [Procs -> (key -|-> hash)]
          h        \* history of operations (M3): what each Hash returned, and the file state after each step
vars == <<file, clock, pcache, memo, h>>

Empty == << >>
Exists(p) == file[p].c # Absent

Key(p) == IF KeyMode = "ideal" THEN <<p, file[p].m, file[p].c>> ELSE <<p, file[p].m>>
Lapsed(p) == file[p].m < clock          \* the resolution period has passed since p was modified
Trusted(p) == KeyMode # "docguard" \/ Lapsed(p)

Init == /\ file = InitFile          \* all files carry stamp 1, e.g. unpacked from one archive
        /\ clock = 1
        /\ pcache = Empty
        /\ memo = [q \in Procs |-> Empty]
        /\ h = << >>

Log(rec) == h' = Append(h, rec @@ [st |-> file'])      \* every step also records the file state reached

Write(p, c) ==          \* ordinary write: new content, fresh mtime
  /\ c # file[p].c
  /\ clock' = clock + 1
  /\ file' = [file EXCEPT ![p] = [c |-> c, m |-> clock + 1]]
  /\ UNCHANGED <<pcache, memo>>
  /\ Log([op |-> "Write", p |-> p, c |-> c, m |-> clock + 1])

WriteKeepMtime(p, c) == \* content changes, mtime does not (same tick, or restored by the writer)
  /\ Exists(p) /\ c # file[p].c
  /\ CoarseOnly => ~Lapsed(p)
  /\ file' = [file EXCEPT ![p].c = c]
  /\ UNCHANGED <<clock, pcache, memo>>
  /\ Log([op |-> "WriteKeepMtime", p |-> p, c |-> c, m |-> file[p].m])

SetMtime(p, t) ==       \* touch -d / os.utime / tar -x: any earlier or later stamp
  /\ Exists(p) /\ t # file[p].m
  /\ file' = [file EXCEPT ![p].m = t]
  /\ UNCHANGED <<clock, pcache, memo>>
  /\ Log([op |-> "SetMtime", p |-> p, m |-> t])

RenameOver(s, d) ==     \* os.replace: content and mtime travel, the source disappears
  /\ s # d /\ Exists(s)
  /\ file' = [file EXCEPT ![d] = file[s], ![s] = [c |-> Absent, m |-> 0]]
  /\ UNCHANGED <<clock, pcache, memo>>
  /\ Log([op |-> "RenameOver", s |-> s, p |-> d])

CopyPreserve(s, d) ==   \* cp -p / shutil.copy2
  /\ s # d /\ Exists(s) /\ file[d] # file[s]
  /\ file' = [file EXCEPT ![d] = file[s]]
  /\ UNCHANGED <<clock, pcache, memo>>
  /\ Log([op |-> "CopyPreserve", s |-> s, p |-> d])

Tick ==                 \* time passes (only matters for the documented guard)
  /\ KeyMode = "docguard"
  /\ clock' = clock + 1
  /\ UNCHANGED <<file, pcache, memo>>
  /\ Log([op |-> "Tick"])

Hash(q, p) ==
  /\ Exists(p)
  /\ LET k   == Key(p)
         now == H(file[p].c)
         r   == IF ~Trusted(p) THEN now
                ELSE IF MemoLives /\ k \in DOMAIN memo[q] THEN memo[q][k]
                ELSE IF k \in DOMAIN pcache THEN pcache[k]
                ELSE now
         store == Trusted(p) /\ ~(MemoLives /\ k \in DOMAIN memo[q]) /\ k \notin DOMAIN pcache
     IN /\ pcache' = IF store THEN pcache @@ (k :> now) ELSE pcache
        /\ memo' = IF store /\ MemoLives THEN [memo EXCEPT ![q] = @ @@ (k :> now)] ELSE memo
        /\ UNCHANGED <<file, clock>>
        /\ Log([op |-> "Hash", q |-> q, p |-> p, r |-> r, cur |-> now])

Next ==
  /\ Len(h) < MaxOps
  /\ \/ "Write" \in Ops /\ \E p \in Paths, c \in Contents : Write(p, c)
     \/ "WriteKeepMtime" \in Ops /\ \E p \in Paths, c \in Contents : WriteKeepMtime(p, c)
     \/ "SetMtime" \in Ops /\ \E p \in Paths, t \in 1..clock : SetMtime(p, t)
     \/ "RenameOver" \in Ops /\ \E s, d \in Paths : RenameOver(s, d)
     \/ "CopyPreserve" \in Ops /\ \E s, d \in Paths : CopyPreserve(s, d)
     \/ "Hash" \in Ops /\ \E q \in Procs, p \in Paths : Hash(q, p)
     \/ "Tick" \in Ops /\ Tick

Spec == Init /\ [][Next]_vars

(* ---- properties ---- *)
Last == IF h = << >> THEN [op |-> "none"] ELSE h[Len(h)]
View == <<file, clock, pcache, memo, Len(h), Last>>     \* M1: the past matters only through the state
HashCorrect == Last.op = "Hash" => Last.r = Last.cur    \* checked in every state = at every Hash step
CacheSound  == \A k \in DOMAIN pcache :            \* every entry that can still be hit is right
                 \A p \in Paths : (Exists(p) /\ Key(p) = k) => pcache[k] = H(file[p].c)
MemoConsistent == \A q \in Procs : \A k \in DOMAIN memo[q] : k \in DOMAIN pcache /\ pcache[k] = memo[q][k]
=============================================================================
