--------------------------- MODULE LmodEnv_Gen ---------------------------
(* Case generator (mode M2) for C39: one initial state per case (caller     *)
(* environment x module script x requested modules x argument-vector       *)
(* variant); the expected child environment is computed by LmodEnv.         *)
EXTENDS LmodEnv, Json
CONSTANTS Mode,        \* "quote" | "merge" | "argv"
          MaxLen,      \* quote mode: values are all strings over Alphabet up to this length
          MaxOps,      \* merge mode: scripts of up to this many operations
          VaryVars,    \* merge mode: variables the caller may lack (the others are always set)
          Shard, NShards

VARIABLES caller, script, mods, av
vars == <<caller, script, mods, av>>

Alphabet == {97, 32, DQ, SQ, BS, 61}            \* a, blank, ", ', backslash, =
Strs(n)  == UNION { [1..k -> Alphabet] : k \in 0..n }
StrList  == SetToSeq(Strs(MaxLen))
MyStrs   == { StrList[i] : i \in { j \in 1..Len(StrList) : j % NShards = Shard } }

M1 == <<109, 49>>                  \* m1
M2 == <<102, 115, 108, 47, 54>>    \* fsl/6
Amb == "AMBIENT" :> <<65>>
Obs == {"VA", "VB", "VP", "LOADEDMODULES", "AMBIENT"}

Op(o, v, x) == [op |-> o, var |-> v, val |-> x]
MergeOps == { Op("set", "VA", <<110>>),                 \* n
              Op("set", "VB", <<110, 32, 109>>),        \* n m
              Op("set", "VA", <<120, DQ, 121>>),        \* x"y
              Op("prepend", "VP", <<98>>),              \* b
              Op("set", "VP", <<122>>),                 \* z
              Op("unset", "VA", <<>>),
              Op("unset", "VB", <<>>) }
Scripts(n) == UNION { [1..k -> MergeOps] : k \in 0..n }
ScriptList == SetToSeq(Scripts(MaxOps))
MyScripts  == { ScriptList[i] : i \in { j \in 1..Len(ScriptList) : j % NShards = Shard } }

Opt(v, x)  == { [u \in {} |-> <<>>], v :> x }             \* variable absent or set to x
OptV(v, x) == IF v \in VaryVars THEN Opt(v, x) ELSE { v :> x }
Callers == { Amb @@ a @@ b @@ p : a \in OptV("VA", <<111>>), b \in OptV("VB", <<107>>),
                                  p \in OptV("VP", <<112, COLON, 113>>) }

Init ==
  \/ /\ Mode = "quote"
     /\ caller \in { Amb @@ ("VB" :> <<107>>) @@ a : a \in Opt("VA", <<111>>) }
     /\ \E x \in MyStrs : script = << Op("set", "VA", x) >>
     /\ mods = << M1 >>
     /\ av = 0
  \/ /\ Mode = "merge"
     /\ caller \in Callers
     /\ script \in MyScripts
     /\ mods = << M1 >>
     /\ av = 0
  \/ /\ Mode = "argv"
     /\ caller = Amb @@ ("VA" :> <<111>>)
     /\ script \in { <<>>, << Op("set", "VA", <<110>>) >> }
     /\ mods \in { << M1 >>, << M1, M2 >> }
     /\ av \in 0..3
     /\ Shard = 0
Next == FALSE /\ UNCHANGED vars

(* the task: EXE DST <file> [-x val]; the file is copied into the job directory when bit 1 of av is set *)
NativeArgv == << "EXE", "DST", IF av % 2 = 1 THEN "JOB/in.txt" ELSE "T/in.txt" >>
              \o (IF av \div 2 = 1 THEN << "-x", "val" >> ELSE <<>>)
LmodArgv   == NativeArgv          \* "executes the same argument vector as the native environment"

Case ==
  [ caller  |-> caller,
    script  |-> script,
    mods    |-> mods,
    av      |-> av,
    obs     |-> Obs,
    absent  |-> ABSENT,
    native  |-> NativeArgv,
    argv    |-> LmodArgv,
    pass    |-> PassThrough(caller, mods, script, Obs),
    setby   |-> SetByModules(caller, mods, script, Obs),
    open    |-> Obs \cap Open(Session(mods, script)),
    \* named as-built references
    passAB  |-> PassThroughAsBuilt(caller, mods, script, Obs),
    setbyAB |-> SetByModulesAsBuilt(caller, mods, script, Obs),
    openAB  |-> OpenAsBuilt(caller, mods, script, Obs) ]
Emit == PrintT(ToJson(Case))

Theorems == SpecTheorems(caller, mods, script, Obs)
=============================================================================
