----------------------------- MODULE Submitter -----------------------------
(***************************************************************************)
(* The workflow expansion loop of pydra's Submitter                        *)
(* (Submitter.expand_workflow_async / expand_workflow, get_runnable_tasks, *)
(* NodeExecution.get_runnable_tasks / update_status) against a pool of     *)
(* workers that start and finish jobs in any order.                        *)
(*                                                                         *)
(* Decides C14 (a failing job never stops independent jobs), C15 (jobs     *)
(* start only after everything they consume succeeded; each job once),     *)
(* C16 (max_concurrent never exceeded), C18 (termination).                 *)
(*                                                                         *)
(* A graph is a constant record: nodes in the engine's sorted order,       *)
(* preds[n] (set of nodes), njobs[n] (1 = unsplit, k = split into k jobs). *)
(* As in the code, a node is started only when ALL jobs of ALL predecessor *)
(* nodes are done.  A job is <<node, index>>.                              *)
(***************************************************************************)
EXTENDS Naturals, Sequences, FiniteSets, TLC

CONSTANTS
  Graphs,            \* set of graph records [nodes: Seq, preds: [node -> SUBSET node], njobs: [node -> Nat]]
  Ks,                \* set of max_concurrent values explored (0 = unlimited)
  FailChoices,       \* "none" | "any": which jobs may fail
  SliceIgnoresRunning,   \* AS-BUILT switch (C16): the limit is applied to the scan result only
  RunningLoopRaises      \* AS-BUILT switch (C14): a failure seen after `running` escapes update_status

VARIABLES
  g, K, fails,       \* chosen in Init, then constant
  st,                \* [Jobs -> {"none","blocked","queued","running","successful","errored"}] NodeExecution sets
  started,           \* [Nodes -> BOOLEAN]  NodeExecution.start() called / marked unrunnable
  unrunnable,        \* [Nodes -> BOOLEAN]
  w,                 \* [Jobs -> {"idle","submitted","executing","finishing","saved_ok","saved_err","ok","err"}] worker side:
                     \*   saved_* = the result is on disk (visible to scans) but the future has not completed yet
  futured,           \* set of jobs for which a future was created
  pending,           \* set of jobs whose future has not been collected yet
  errors,            \* set of jobs reported in the final error
  tasks,             \* sequence of jobs returned by the last scan
  loop,              \* "scan" | "launch" | "wait" | "stall" | "done" | "error" | "crashed"
  stall              \* stall counter (0..StallMax)
vars == <<g, K, fails, st, started, unrunnable, w, futured, pending, errors, tasks, loop, stall>>

StallMax == 2       \* the code tries 10 times; 2 is enough to explore the branch

NodeSet == {g.nodes[i] : i \in 1..Len(g.nodes)}
JobsOf(n) == {<<n, i>> : i \in 1..g.njobs[n]}
Jobs == UNION {JobsOf(n) : n \in NodeSet}
AllJobs(gr) == UNION {{<<gr.nodes[k], i>> : i \in 1..gr.njobs[gr.nodes[k]]} : k \in 1..Len(gr.nodes)}

RECURSIVE Ancestors(_, _)
Ancestors(gr, n) == gr.preds[n] \cup UNION {Ancestors(gr, m) : m \in gr.preds[n]}

Init ==
  /\ g \in Graphs
  /\ K \in Ks
  /\ fails \in (IF FailChoices = "none" THEN {{}} ELSE SUBSET AllJobs(g))
  /\ st = [j \in AllJobs(g) |-> "none"]
  /\ started = [n \in {g.nodes[i] : i \in 1..Len(g.nodes)} |-> FALSE]
  /\ unrunnable = [n \in {g.nodes[i] : i \in 1..Len(g.nodes)} |-> FALSE]
  /\ w = [j \in AllJobs(g) |-> "idle"]
  /\ futured = {} /\ pending = {} /\ errors = {}
  /\ tasks = <<>> /\ loop = "scan" /\ stall = 0

(* ------------------------------------------------------------------ *)
(* NodeExecution.update_status applied to every node (what `node.done` *)
(* and the scan observe).  Returns the new st, or "raise" when the      *)
(* as-built running loop lets ValueError escape.                        *)
DiskOk(j)  == w[j] \in {"ok", "saved_ok"}
DiskErr(j) == w[j] \in {"err", "saved_err"}
Upd(j) ==
  IF st[j] = "queued" THEN
       IF DiskOk(j) THEN "successful"
       ELSE IF DiskErr(j) THEN "errored"
       ELSE IF w[j] \in {"executing", "finishing"} THEN "running"
       ELSE "queued"
  ELSE IF st[j] = "running" THEN
       IF DiskOk(j) THEN "successful"
       ELSE IF DiskErr(j) THEN "errored"
       ELSE "running"
  ELSE st[j]
Updated == [j \in Jobs |-> Upd(j)]
UpdateRaises == RunningLoopRaises /\ \E j \in Jobs : st[j] = "running" /\ DiskErr(j)

NodeStarted(s, n)   == started[n]
NodeDoneIn(s, sd, n) == sd[n] /\ \A j \in JobsOf(n) : s[j] \in {"successful", "errored"} \/ unrunnable[n]
NodeErrored(s, n)   == \E j \in JobsOf(n) : s[j] = "errored"

(* jobs of one node in index order *)
SetToSeqJ(S) == IF S = {} THEN <<>>
                ELSE LET n == (CHOOSE j \in S : TRUE)[1]
                         idx == {j[2] : j \in S}
                         mx == CHOOSE m \in idx : \A x \in idx : x <= m
                         F[k \in 0..mx] == IF k = 0 THEN <<>>
                                           ELSE IF k \in idx THEN Append(F[k-1], <<n, k>>) ELSE F[k-1]
                     IN F[mx]

(* The scan of Submitter.get_runnable_tasks as one fold over the sorted nodes.
   acc = [s: st function, sd: started, ur: unrunnable, ts: task sequence, ns: not-started set, stop: BOOLEAN] *)
RECURSIVE ScanFrom(_, _)
ScanFrom(i, acc) ==
  IF i > Len(g.nodes) \/ acc.stop THEN acc
  ELSE
    LET n == g.nodes[i]
        done == acc.sd[n] /\ (acc.ur[n] \/ \A j \in JobsOf(n) : acc.s[j] \in {"successful", "errored"})
    IN
    IF done THEN ScanFrom(i + 1, acc)
    ELSE IF g.preds[n] \cap acc.ns # {} THEN [acc EXCEPT !.stop = TRUE]
    ELSE
      LET ns2 == IF acc.sd[n] THEN acc.ns ELSE acc.ns \cup {n}
          predBad  == \E p \in g.preds[n] : acc.ur[p] \/ \E j \in JobsOf(p) : acc.s[j] = "errored"
          predDone == \A p \in g.preds[n] :
                         acc.sd[p] /\ (acc.ur[p] \/ \A j \in JobsOf(p) : acc.s[j] \in {"successful", "errored"})
          queuedNow == {j \in JobsOf(n) : acc.s[j] = "queued"}
      IN
      IF predBad
      THEN ScanFrom(i + 1, [acc EXCEPT !.ur[n] = TRUE, !.sd[n] = TRUE, !.ns = ns2,
                                       !.ts = @ \o SetToSeqJ(queuedNow)])
      ELSE IF predDone
      THEN LET s2 == [j \in Jobs |-> IF j \in JobsOf(n) /\ acc.s[j] \in {"none", "blocked"} THEN "queued" ELSE acc.s[j]]
               q2 == {j \in JobsOf(n) : s2[j] = "queued"}
           IN ScanFrom(i + 1, [acc EXCEPT !.s = s2, !.sd[n] = TRUE, !.ns = ns2, !.ts = @ \o SetToSeqJ(q2)])
      ELSE ScanFrom(i + 1, [acc EXCEPT !.ns = ns2, !.ts = @ \o SetToSeqJ(queuedNow)])

InFlight == {j \in Jobs : w[j] \in {"submitted", "executing", "finishing", "saved_ok", "saved_err"}}
Executing == {j \in Jobs : w[j] \in {"submitted", "executing", "finishing"}}
Limit(ts) == IF K = 0 \/ Len(ts) <= K THEN ts ELSE SubSeq(ts, 1, K)     \* tasks[: max_concurrent]

(* futures created by one pass over `tasks`: as built every task not yet futured; *)
(* intended: only while fewer than K futures are pending                          *)
RECURSIVE Admit(_, _, _)
Admit(ts, i, n) ==      \* n = futures pending so far
  IF i > Len(ts) THEN {}
  ELSE IF ts[i] \in futured THEN Admit(ts, i + 1, n)
  ELSE IF K > 0 /\ ~SliceIgnoresRunning /\ n >= K THEN {}
  ELSE {ts[i]} \cup Admit(ts, i + 1, n + 1)

AllNodesDone(s, sd, ur) ==
  \A n \in NodeSet : sd[n] /\ (ur[n] \/ \A j \in JobsOf(n) : s[j] \in {"successful", "errored"})

Scan ==
  /\ loop = "scan"
  /\ IF UpdateRaises
     THEN /\ loop' = "crashed"                      \* ValueError escapes get_runnable_tasks
          /\ UNCHANGED <<st, started, unrunnable, tasks, stall, errors>>
     ELSE LET r == ScanFrom(1, [s |-> Updated, sd |-> started, ur |-> unrunnable, ts |-> <<>>, ns |-> {}, stop |-> FALSE])
              ts == Limit(r.ts)
          IN /\ st' = r.s /\ started' = r.sd /\ unrunnable' = r.ur
             /\ tasks' = ts
             /\ IF ts # <<>> \/ pending # {}
                THEN loop' = "launch" /\ stall' = 0 /\ UNCHANGED errors
                ELSE IF AllNodesDone(r.s, r.sd, r.ur)
                THEN loop' = (IF errors = {} THEN "done" ELSE "error") /\ UNCHANGED <<stall, errors>>
                ELSE IF stall < StallMax THEN loop' = "scan" /\ stall' = stall + 1 /\ UNCHANGED errors
                ELSE loop' = "error" /\ UNCHANGED <<stall, errors>>         \* "Something has gone wrong ..."
  /\ UNCHANGED <<g, K, fails, w, futured, pending>>

Launch ==                               \* create futures for the tasks not yet futured
  /\ loop = "launch"
  /\ LET new == Admit(tasks, 1, Cardinality(pending)) IN
     /\ futured' = futured \cup new
     /\ pending' = pending \cup new
     /\ w' = [j \in Jobs |-> IF j \in new THEN "submitted" ELSE w[j]]
  /\ loop' = "wait"
  /\ UNCHANGED <<g, K, fails, st, started, unrunnable, errors, tasks, stall>>

Wait ==                                 \* fetch_finished: all futures that are done
  /\ loop = "wait"
  /\ LET fin == {j \in pending : w[j] \in {"ok", "err"}} IN
     /\ (pending # {} => fin # {})
     /\ pending' = pending \ fin
     /\ errors' = errors \cup {j \in fin : w[j] = "err"}
  /\ loop' = "scan"
  /\ UNCHANGED <<g, K, fails, st, started, unrunnable, w, futured, tasks, stall>>

(* ---- worker side: any order ---- *)
WorkerStart(j) == /\ w[j] = "submitted" /\ w' = [w EXCEPT ![j] = "executing"]
                  /\ UNCHANGED <<g, K, fails, st, started, unrunnable, futured, pending, errors, tasks, loop, stall>>
WorkerBodyEnd(j) == /\ w[j] = "executing" /\ w' = [w EXCEPT ![j] = "finishing"]
                    /\ UNCHANGED <<g, K, fails, st, started, unrunnable, futured, pending, errors, tasks, loop, stall>>
WorkerFinish(j) == /\ w[j] = "finishing" /\ w' = [w EXCEPT ![j] = IF j \in fails THEN "saved_err" ELSE "saved_ok"]
                   /\ UNCHANGED <<g, K, fails, st, started, unrunnable, futured, pending, errors, tasks, loop, stall>>
WorkerReturn(j) == /\ w[j] \in {"saved_ok", "saved_err"}            \* the future completes
                   /\ w' = [w EXCEPT ![j] = IF w[j] = "saved_ok" THEN "ok" ELSE "err"]
                   /\ UNCHANGED <<g, K, fails, st, started, unrunnable, futured, pending, errors, tasks, loop, stall>>

LoopStep == Scan \/ Launch \/ Wait
WorkerStep == \E j \in Jobs : WorkerStart(j) \/ WorkerBodyEnd(j) \/ WorkerFinish(j) \/ WorkerReturn(j)
Next == LoopStep \/ WorkerStep
Spec == Init /\ [][Next]_vars
FairSpec == Spec /\ WF_vars(LoopStep) /\ WF_vars(WorkerStep)

(* ---------------------------- properties ---------------------------- *)
Terminated == loop \in {"done", "error", "crashed"}
FailedAncestor(j) == \E a \in Ancestors(g, j[1]) : JobsOf(a) \cap fails # {}
(* C15 *)
StartAfterPredsSucceeded ==
  \A j \in Jobs : w[j] # "idle" => \A p \in g.preds[j[1]] : \A q \in JobsOf(p) : DiskOk(q)
EachJobOnce == \A j \in Jobs : (j \in futured) <=> (w[j] # "idle")       \* one future per job, never relaunched
AllRunWhenNoFailure == (loop = "done") => \A j \in Jobs : DiskOk(j)
(* C16 *)
WithinLimit == K > 0 => Cardinality(InFlight) <= K
(* C14 *)
IndependentJobsRun ==
  (Terminated /\ pending = {}) => \A j \in Jobs : (~FailedAncestor(j)) => w[j] \in {"ok", "err"}
NoPendingAtEnd == (loop \in {"done", "error"}) => pending = {}       \* the loop never ends while a future is outstanding
IndependentJobsRunEventually == <>[](\A j \in Jobs : (~FailedAncestor(j)) => w[j] \in {"ok", "err"})
DependentsNeverRun == \A j \in Jobs : FailedAncestor(j) => w[j] = "idle"
ErrorNamesEveryFailedJob == (loop = "error") => (errors = fails \cap futured)
FailureIsReported == (Terminated /\ fails \cap futured # {} /\ pending = {}) => loop # "done"
ErrorOnlyIfFailure == (loop = "error") => (fails \cap futured # {})      \* an error outcome is never spurious
NeverCrashes == loop # "crashed"
(* C18 *)
Terminates == <>Terminated
=============================================================================
