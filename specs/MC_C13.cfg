SPECIFICATION Spec
CONSTANTS
  Procs = {p1,p2}
  ROSeq <- NoRO
  MaxSubs = 2
  RerunAllowed <- Both
  BodyOutcomes <- OkOrRaise
  CrashBudget = 0
  RaiseBudget = 0
  LeftoverRoot <- OnlyAbsent
  LeftoverRO <- OnlyAbsent
  FirstExistingDirDecides = FALSE
  TryStartsLate = FALSE
INVARIANT TypeOK
INVARIANT ErrNeverServed
INVARIANT RaiseIsReported
INVARIANT ErrorRecorded
CHECK_DEADLOCK FALSE
