------------------------------ MODULE Staging ------------------------------
(***************************************************************************)
(* What collecting workflow output files (C33) and staging file inputs     *)
(* (C34) must guarantee, written from the two property statements and the  *)
(* documentation of copy modes / collation (fileformats FileSet.copy,      *)
(* pydra Job.inputs doc-string).  Nothing here computes file NAMES: the    *)
(* statements do not prescribe them; they constrain the RELATION between   *)
(* the nested value handed in and the nested value handed back.            *)
(*                                                                         *)
(* A value is a term  [k, o, kids]:                                        *)
(*    k = "leaf" : a leaf; o names a file-system object of the pool, or    *)
(*                 o = "#" for a non-file value (the integer 7)            *)
(*    k in {"list","tuple","dict"} : a container of kids (dict keys are    *)
(*                 "k1","k2",.. in order)                                  *)
(* A case has one or two FIELDS (output fields of a workflow / the input   *)
(* field of a task), each holding a value.                                 *)
(***************************************************************************)
EXTENDS Naturals, Sequences, FiniteSets, SequencesExt, TLC

(* ---- the pool: objects in three source directories, colliding names ---- *)
(* kind "file": one file; "dir": a directory holding one file; "pair": a    *)
(* file-set of two files living in different directories                    *)
AllObjects == {"F1", "F2", "G3", "N1", "S1", "S2", "P1"}
Info(o) ==
  CASE o = "F1" -> [kind |-> "file", paths |-> << <<"d1", "f.txt"       >> >>, content |-> <<"one">>]
    [] o = "F2" -> [kind |-> "file", paths |-> << <<"d2", "f.txt"       >> >>, content |-> <<"two">>]
    [] o = "G3" -> [kind |-> "file", paths |-> << <<"d3", "g.txt"       >> >>, content |-> <<"three">>]
    [] o = "N1" -> [kind |-> "file", paths |-> << <<"d1", "sub", "f.txt">> >>, content |-> <<"nested">>]
    [] o = "S1" -> [kind |-> "dir",  paths |-> << <<"d1", "sub"         >> >>, content |-> <<"nested">>]
    [] o = "S2" -> [kind |-> "dir",  paths |-> << <<"d2", "sub"         >> >>, content |-> <<"sub-two">>]
    [] o = "P1" -> [kind |-> "pair", paths |-> << <<"d1", "p.txt">>, <<"d2", "p.dat">> >>,
                    content |-> <<"pair-a", "pair-b">>]
(* a directory's content is the content of the file it holds (named f.txt); *)
(* N1 IS the file inside S1                                                  *)
BaseName(o) == LET p == Info(o).paths[1] IN p[Len(p)]

Scalar == "#"
IsFileLeaf(l) == l # Scalar

Leaf(l)       == [k |-> "leaf", o |-> l, kids |-> <<>>]
Cont(kd, ks)  == [k |-> kd, o |-> "", kids |-> ks]
Kinds         == {"list", "tuple", "dict"}

(* ---- leaves in traversal order (containers left to right, dict values in key order) ---- *)
RECURSIVE LeavesOf(_)
LeavesOf(t) == IF t.k = "leaf" THEN <<t.o>>
               ELSE FlattenSeq([i \in 1..Len(t.kids) |-> LeavesOf(t.kids[i])])

RECURSIVE DepthOf(_)
DepthOf(t) == IF t.k = "leaf" THEN 0
              ELSE 1 + (IF t.kids = <<>> THEN 0
                        ELSE LET ds == { DepthOf(t.kids[i]) : i \in 1..Len(t.kids) }
                             IN CHOOSE d \in ds : \A e \in ds : e <= d)

(* the shape that must come back: the same containers around leaves of the same kind *)
RECURSIVE ShapeOf(_)
ShapeOf(t) == IF t.k = "leaf" THEN Leaf(IF IsFileLeaf(t.o) THEN Info(t.o).kind ELSE "int")
              ELSE Cont(t.k, [i \in 1..Len(t.kids) |-> ShapeOf(t.kids[i])])

(* all leaves of a case, field by field: sequence of [f |-> field index, o |-> label] *)
CaseLeaves(fields) ==
  FlattenSeq([f \in 1..Len(fields) |->
                LET ls == LeavesOf(fields[f]) IN [i \in 1..Len(ls) |-> [f |-> f, o |-> ls[i]]]])

FileIdx(L) == { i \in 1..Len(L) : IsFileLeaf(L[i].o) }

(* ---- requirements as sets of leaf-index pairs ---- *)
(* distinct sources must never share a destination (C33 across ALL outputs of the     *)
(* workflow; C34 within the value)                                                     *)
MustDiffer(L)   == { <<i, j>> \in FileIdx(L) \X FileIdx(L) : i < j /\ L[i].o # L[j].o }
(* the same file object again within one value (C34: "staged once")                   *)
SameObject(L)   == { <<i, j>> \in FileIdx(L) \X FileIdx(L) : i < j /\ L[i].o = L[j].o /\ L[i].f = L[j].f }
(* the same object in two different fields: neither statement decides                  *)
AcrossFields(L) == { <<i, j>> \in FileIdx(L) \X FileIdx(L) : i < j /\ L[i].o = L[j].o /\ L[i].f # L[j].f }

ContentOf(L) == [i \in 1..Len(L) |-> IF IsFileLeaf(L[i].o) THEN Info(L[i].o).content ELSE <<"7">>]

NameClash(L) == \E p \in MustDiffer(L) : BaseName(L[p[1]].o) = BaseName(L[p[2]].o)

(* a staging assigns a destination to every file leaf; these are the demands on it *)
ValidStaging(L, dest, once) ==
  /\ \A p \in MustDiffer(L) : dest[p[1]] # dest[p[2]]
  /\ once => \A p \in SameObject(L) : dest[p[1]] = dest[p[2]]

(* ---- copy modes (C34) ---- *)
Modes == {"any", "copy", "link", "hardlink", "symlink", "link_or_copy", "hardlink_or_copy"}
Collations == {"any", "siblings", "adjacent"}

(* how the staged object must relate to the original:                       *)
(*   "independent": writing to either side is invisible on the other;       *)
(*   "linked": the staged path shows the original's current content;        *)
(*   "either": the mode leaves the choice open                              *)
Relation(mode) == CASE mode = "copy" -> "independent"
                    [] mode \in {"link", "hardlink", "symlink"} -> "linked"
                    [] OTHER -> "either"

(* must the object end up inside the job directory?  Every explicit mode    *)
(* stages; "any" may leave files where they are unless the collation asks   *)
(* for the paths of a multi-file object to be brought together              *)
MustStage(mode, coll, kind) == mode # "any" \/ (kind = "pair" /\ coll # "any")

(* layout the collation promises for a multi-file object that is staged     *)
Layout(mode, coll, kind) ==
  IF kind = "pair" /\ MustStage(mode, coll, kind) /\ coll # "any" THEN coll ELSE "open"

(* A task with several file fields: every field is staged according to ITS OWN copy    *)
(* mode and collation, whatever the other fields hold - in particular when the same    *)
(* object is given to two fields with different modes (the copy must stay independent  *)
(* and the link must keep showing the original).  fmodes / fcolls : field index -> mode *)
LeafDemand(L, fmodes, fcolls, i) ==
  LET m == fmodes[L[i].f]  c == fcolls[L[i].f]  k == Info(L[i].o).kind IN
  [rel |-> Relation(m), stage |-> MustStage(m, c, k), layout |-> Layout(m, c, k)]

(* ---- theorems ---- *)
StagingTheorems(L) ==
  LET FI == FileIdx(L)
      allpairs == { <<i, j>> \in FI \X FI : i < j }
      \* a witness: send every leaf to the first leaf holding the same object
      first == [i \in 1..Len(L) |-> CHOOSE j \in 1..Len(L) : L[j].o = L[i].o /\ \A m \in 1..Len(L) : L[m].o = L[i].o => j <= m]
      byname == [i \in 1..Len(L) |-> IF IsFileLeaf(L[i].o) THEN BaseName(L[i].o) ELSE ""]
  IN /\ MustDiffer(L) \cup SameObject(L) \cup AcrossFields(L) = allpairs
     /\ MustDiffer(L) \cap (SameObject(L) \cup AcrossFields(L)) = {}
     /\ ValidStaging(L, first, TRUE)                       \* the demands are satisfiable
     /\ ValidStaging(L, byname, TRUE) <=> ~NameClash(L)    \* staging by base name works iff no clash
     /\ Len(ContentOf(L)) = Len(L)
=============================================================================
