SPECIFICATION Spec
CONSTANTS
  Procs = {p1,p2,p3}
  ROSeq <- NoRO
  MaxSubs = 1
  RerunAllowed <- OnlyFalse
  BodyOutcomes <- OkOnly
  CrashBudget = 0
  RaiseBudget = 0
  LeftoverRoot <- AbsentOrDone
  LeftoverRO <- OnlyAbsent
  FirstExistingDirDecides = FALSE
  TryStartsLate = FALSE
INVARIANT TypeOK
INVARIANT MutualExclusion
INVARIANT OneBodyPerId
INVARIANT ReturnedOkMeansComplete
INVARIANT NoPartialVisibleUnlocked
CHECK_DEADLOCK FALSE
INVARIANT FinalReadFindsResult
