-------------------------- MODULE DefRoundTrip_Gen --------------------------
(* Case generator (mode M2) for C32: one initial state per task definition.  *)
(*   Mode = "rules"  : the definitions of the C31 generator (RulesEnum),     *)
(*                     as python or shell tasks                              *)
(*   Mode = "fields" : definitions built from a menu of field templates with *)
(*                     help / allowed values / argstr / sep variants, four    *)
(*                     position schemes and five rule schemes                *)
(* Each case carries the projection the round trip must preserve, the        *)
(* as-built prediction, and for every value assignment the expected verdict   *)
(* and command line (both derived from the same definition term).            *)
EXTENDS DefRoundTrip, RulesEnum, Json
CONSTANTS Mode, Flavour, MaxFields

VARIABLE d
vars == <<d>>

(* ---------------- Mode "rules" ---------------- *)
TypeOf(k)    == CASE k = "b" -> "bool" [] k = "s" -> "str | None" [] k = "i" -> "int | None" [] k = "m" -> "str"
DefaultOf(k) == CASE k = "b" -> "False" [] k = "m" -> "nodefault" [] OTHER -> "None"

FromRules(kv, rq, xr) ==
  [ flavour |-> Flavour,
    fields  |-> [i \in 1..N |->
                  LET f == Names[i] IN
                  [ name |-> f, type |-> TypeOf(kv[f]), default |-> DefaultOf(kv[f]), help |-> "",
                    allowed |-> {}, req |-> rq[f],
                    argstr |-> IF Flavour = "shell" THEN "-" \o f ELSE "", position |-> 0, sep |-> " ",
                    menu |-> IF kv[f] = "b" THEN {"-", "T"} ELSE Menu(kv[f]) ]],
    xor     |-> xr ]

(* (the parameter only keeps TLC from evaluating the set when the mode does not need it) *)
RulesDefs(x) == UNION { UNION { { FromRules(kv, rq, xr) : xr \in XorChoices } : rq \in ReqChoices(kv) } : kv \in MyKinds }

(* ---------------- Mode "fields" ---------------- *)
Shell == Flavour = "shell"
Fd(nm, tp, df, hp, al, as, sp, mn) ==
  [ name |-> nm, type |-> tp, default |-> df, help |-> hp, allowed |-> al, req |-> {},
    argstr |-> IF Shell THEN as ELSE "", position |-> 0, sep |-> IF Shell THEN sp ELSE " ", menu |-> mn ]

Template(t) ==
  CASE t = "a" -> { Fd("a", "bool", "False", v[1], {}, v[2], " ", {"-", "T"}) :
                      v \in (IF Shell THEN { <<"", "-a">>, <<"the a flag", "--aa">> }
                                       ELSE { <<"", "">>, <<"the a flag", "">> }) }
    [] t = "b" -> { Fd("b", "str | None", "None", v[1], v[2], "-b", " ", {"-", "v", "x"}) :
                      v \in { <<"", {}>>, <<"pick b", {"v", "w"}>> } }
    [] t = "n" -> { Fd("n", "int", "3", "", {}, "-n", " ", {"-", "2"}) }
    [] t = "l" -> { Fd("l", "list[int] | None", "None", "", {}, "-l", sp, {"-", "12"}) :
                      sp \in (IF Shell THEN {" ", ","} ELSE {" "}) }
    [] t = "m" -> { Fd("m", "str", "nodefault", "", {}, as, " ", {"-", "v"}) :
                      as \in (IF Shell THEN {"", "-m"} ELSE {""}) }
Templates == {"a", "b", "n", "l", "m"}

RECURSIVE SeqsOver(_)     \* sequences of field definitions, one per template of the sequence ts
SeqsOver(ts) == IF ts = <<>> THEN { <<>> }
                ELSE { <<fd>> \o rest : fd \in Template(ts[1]), rest \in SeqsOver(Tail(ts)) }

TemplateSeqs == UNION { { s \in [1..k -> Templates] : \A i, j \in 1..k : i # j => s[i] # s[j] } : k \in 1..MaxFields }
TSeqList == SetToSeq(TemplateSeqs)
MyTSeqs(x) == { TSeqList[i] : i \in { j \in 1..Len(TSeqList) : j % NShards = Shard } }

(* position schemes (shell): none given; 1..k in definition order; k..1; last field at -1 *)
Positioned(fs, scheme) ==
  LET k == Len(fs) IN
  [i \in 1..k |-> [fs[i] EXCEPT !.position =
      CASE scheme = "none" -> 0
        [] scheme = "asc"  -> i
        [] scheme = "desc" -> k + 1 - i
        [] scheme = "neg"  -> IF i = k THEN -1 ELSE i ]]
Schemes == IF Shell THEN {"none", "asc", "desc", "neg"} ELSE {"none"}

(* rule schemes between templates a and b *)
HasAB(fs) == {"a", "b"} \subseteq { fs[i].name : i \in DOMAIN fs }
WithReq(fs, owner, rss) == [i \in DOMAIN fs |-> IF fs[i].name = owner THEN [fs[i] EXCEPT !.req = rss] ELSE fs[i]]
RuleSchemes(fs) ==
  { [fields |-> fs, xor |-> {}] } \cup
  (IF HasAB(fs)
   THEN { [fields |-> fs, xor |-> {[members |-> {"a", "b"}, none |-> FALSE]}],
          [fields |-> fs, xor |-> {[members |-> {"a", "b"}, none |-> TRUE]}],
          [fields |-> WithReq(fs, "a", {{Req("b")}}), xor |-> {}],
          [fields |-> WithReq(fs, "b", {{Req("a")}, {ReqIn("b", {"v"})}}), xor |-> {}] }
   ELSE {})

FieldDefs(x) ==
  UNION { UNION { UNION { { [flavour |-> Flavour, fields |-> r.fields, xor |-> r.xor] :
                              r \in RuleSchemes(Positioned(fs, sc)) }
                          : sc \in Schemes }
                  : fs \in SeqsOver(ts) }
          : ts \in MyTSeqs(x) }

Init == d \in (IF Mode = "rules" THEN RulesDefs(0) ELSE FieldDefs(0))
Next == FALSE /\ UNCHANGED vars

(* ---------------- emitted case ---------------- *)
RECURSIVE AsgProduct(_)
AsgProduct(i) == IF i > Len(d.fields) THEN { <<>> }
                 ELSE { (d.fields[i].name :> v) @@ t : v \in d.fields[i].menu, t \in AsgProduct(i + 1) }

Why(B) == (IF "value" \in B THEN "v" ELSE "")
       \o (IF "r" \in B THEN "r" ELSE "") \o (IF "x" \in B THEN "x" ELSE "")
       \o (IF "n" \in B THEN "n" ELSE "") \o (IF "m" \in B THEN "m" ELSE "")

JReq(rss) == SetToSeq({ SetToSeq(rs) : rs \in rss })
JField(fd, attrs) == [a \in attrs |-> IF a = "req" THEN JReq(fd.req)
                                      ELSE IF a = "allowed" THEN SetToSeq(fd.allowed) ELSE fd[a]]
JXor(x) == SetToSeq({ [m |-> SetToSeq(g.members), none |-> g.none] : g \in x })
JProj(p) == IF "error" \in DOMAIN p THEN [error |-> p.error, names |-> SetToSeq(p.names)]
            ELSE [ fields |-> [f \in DOMAIN p.fields |-> JField(p.fields[f], DOMAIN p.fields[f])],
                   order |-> p.order, outs |-> p.outs,
                   xor |-> JXor(p.xor) ]

Case ==
  LET as == SetToSeq(AsgProduct(1)) IN
  [ flavour |-> d.flavour,
    fields  |-> [i \in DOMAIN d.fields |-> JField(d.fields[i], ProjAttrs(d.flavour) \cup {"name"})],
    xor     |-> JXor(d.xor),
    proj    |-> JProj(RoundTrip(d)),                \* what the re-created class must look like
    asbuilt |-> JProj(RoundTripAsBuilt(d)),         \* what the as-built model predicts instead
    known   |-> HasRequires(d),
    tab     |-> [i \in 1..Len(as) |->
                  LET y == Why(Verdict(d, as[i])) IN
                  [ a |-> [j \in DOMAIN d.fields |-> as[i][d.fields[j].name]],
                    y |-> y,
                    args |-> IF y = "" /\ d.flavour = "shell" THEN Args(d, as[i]) ELSE <<>> ]] ]
Emit == PrintT(ToJson(Case))

Theorems ==
  /\ RoundTripPreserves(d)
  /\ PositionsUniform(d)
  /\ ~HasRequires(d) => RoundTripAsBuilt(d) = RoundTrip(d)
  /\ HasRequires(d) => RoundTripAsBuilt(d) # RoundTrip(d)
  \* a field at all its defaults has an empty dictionary entry; nothing but defaults is dropped
  /\ \A f \in FieldNames(d) : \A a \in ProjAttrs(d.flavour) :
        (a \in DOMAIN ToDict(d).inputs[f]) <=> (FieldOf(d, f)[a] # AttrDefault[a])
=============================================================================
