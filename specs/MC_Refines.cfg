SPECIFICATION Spec
CONSTANTS
  Procs = {p1,p2,p3}
  ROSeq <- NoRO
  MaxSubs = 1
  RerunAllowed <- OnlyFalse
  BodyOutcomes <- OkOnly
  CrashBudget = 0
  RaiseBudget = 0
  LeftoverRoot <- OnlyAbsent
  LeftoverRO <- OnlyAbsent
  FirstExistingDirDecides = FALSE
  TryStartsLate = FALSE
PROPERTY RefinesCore
INVARIANT CoreSafety
CHECK_DEADLOCK FALSE
