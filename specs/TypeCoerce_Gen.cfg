INIT Init
NEXT Next
CONSTANTS
  Mode = "pairs"
  Pick = "d1"
  A = {"int","float","bool","str","bytes","path","file","dir","none"}
  C = {"int","float","str","file"}
  C2 = {"int","str"}
  Shard = 0
  NShards = 1
INVARIANT Emit
INVARIANT Theorems
CHECK_DEADLOCK FALSE
