----------------------------- MODULE LmodEnv -----------------------------
(***************************************************************************)
(* Reference semantics of running a shell task in an Lmod environment      *)
(* (property C39): the child process sees the CALLER's environment with    *)
(* the effect of loading the requested modules applied on top of it.       *)
(* Written from the property statement, docs/source/explanation/           *)
(* environments.rst ("lmod environment modules, e.g. module load fsl") and *)
(* Lmod's documented behaviour (setenv / prepend_path / unsetenv; the      *)
(* `python` shell prints `os.environ["K"] = "V";` with Lua %q quoting).     *)
(*                                                                         *)
(* An environment is a function from a finite set of variable names (TLA+  *)
(* strings) to values; values are sequences of character codes because     *)
(* their characters matter (quotes, blanks, backslashes, '=').             *)
(* The variable "AMBIENT" stands for everything else in the caller's       *)
(* process environment (PATH, HOME, ...): no module touches it.            *)
(***************************************************************************)
EXTENDS Naturals, Sequences, FiniteSets, FiniteSetsExt, SequencesExt, Functions, TLC

DQ == 34    \* "
SQ == 39    \* '
BS == 92    \* backslash
COLON == 58

SetVar(env, v, x) == [u \in DOMAIN env \cup {v} |-> IF u = v THEN x ELSE env[u]]
DropVar(env, v)   == [u \in DOMAIN env \ {v} |-> env[u]]

(* -------- what loading a module does to the environment it runs in ------ *)
(* op = [op |-> "set" | "prepend" | "unset", var, val]                      *)
Effect(env, op) ==
  CASE op.op = "set"     -> SetVar(env, op.var, op.val)
    [] op.op = "prepend" -> SetVar(env, op.var,
                                   IF op.var \in DOMAIN env THEN op.val \o <<COLON>> \o env[op.var]
                                                            ELSE op.val)
    [] op.op = "unset"   -> DropVar(env, op.var)
RECURSIVE Load(_, _)
Load(env, script) == IF script = <<>> THEN env ELSE Load(Effect(env, Head(script)), Tail(script))

RECURSIVE JoinColon(_)
JoinColon(ms) == IF Len(ms) = 1 THEN ms[1] ELSE ms[1] \o <<COLON>> \o JoinColon(Tail(ms))
(* loading also records the loaded modules, as Lmod does *)
Session(mods, script) == script \o << [op |-> "set", var |-> "LOADEDMODULES", val |-> JoinColon(mods)] >>

ChildEnv(caller, mods, script) == Load(caller, Session(mods, script))

Touched(script) == { script[i].var : i \in DOMAIN script }
LastOp(script, v) == script[Max({ i \in DOMAIN script : script[i].var = v })]
(* the statement speaks of variables "added or overridden" and of variables *)
(* "not touched"; what becomes of a variable a module UNSETS is left open   *)
Open(script)      == { v \in Touched(script) : LastOp(script, v).op = "unset" }
Decided(script)   == Touched(script) \ Open(script)

(* the two judged projections of the child environment, over a set of       *)
(* observed variable names Obs:  absent variables are reported as <<0>>    *)
ABSENT == << 0 >>
Look(env, v) == IF v \in DOMAIN env THEN env[v] ELSE ABSENT
PassThrough(caller, mods, script, Obs) ==      \* untouched: exactly as in the caller
  [v \in Obs \ Touched(Session(mods, script)) |-> Look(caller, v)]
SetByModules(caller, mods, script, Obs) ==     \* added or overridden
  LET s == Session(mods, script) IN
  [v \in Obs \cap Decided(s) |-> Look(Load(caller, s), v)]

(* ---------------------- named as-built references ----------------------- *)
(* What the lmod executable prints for one op, as (key, right-hand side)    *)
RECURSIVE Esc(_)        \* Lua %q : backslash-escape the double quote and the backslash
Esc(v) == IF v = <<>> THEN <<>>
          ELSE (IF Head(v) \in {DQ, BS} THEN <<BS, Head(v)>> ELSE <<Head(v)>>) \o Esc(Tail(v))
Quoted(v) == <<DQ>> \o Esc(v) \o <<DQ>>
Printed(env, op) ==
  IF op.op = "unset" THEN [k |-> op.var, rhs |-> <<SQ, SQ>>]       \* os.environ["K"] = ''  (then del)
  ELSE [k |-> op.var, rhs |-> Quoted(Effect(env, op)[op.var])]
RECURSIVE PrintedAll(_, _)
PrintedAll(env, script) ==
  IF script = <<>> THEN <<>>
  ELSE << Printed(env, Head(script)) >> \o PrintedAll(Effect(env, Head(script)), Tail(script))

(* QuoteRegex: the right-hand side is read with the pattern ['"](.*?)['"],  *)
(* i.e. up to the first quote character of either kind, escapes undecoded   *)
RECURSIVE UpToQuote(_)
UpToQuote(t) == IF t = <<>> \/ Head(t) \in {DQ, SQ} THEN <<>> ELSE <<Head(t)>> \o UpToQuote(Tail(t))
RegexValue(rhs) == UpToQuote(Tail(rhs))
RECURSIVE Collect(_, _)
Collect(env, printed) == IF printed = <<>> THEN env
                         ELSE Collect(SetVar(env, Head(printed).k, RegexValue(Head(printed).rhs)), Tail(printed))
(* CallerDropped: the child environment starts empty instead of from the    *)
(* caller's environment                                                     *)
Empty == [v \in {} |-> <<>>]
AsBuiltEnv(caller, mods, script) == Collect(Empty, PrintedAll(caller, Session(mods, script)))

PassThroughAsBuilt(caller, mods, script, Obs) ==     \* CallerDropped
  [v \in Obs \ Touched(Session(mods, script)) |-> ABSENT]
SetByModulesAsBuilt(caller, mods, script, Obs) ==    \* QuoteRegex
  [v \in Obs \cap Decided(Session(mods, script)) |-> Look(AsBuiltEnv(caller, mods, script), v)]
OpenAsBuilt(caller, mods, script, Obs) ==
  [v \in Obs \cap Open(Session(mods, script)) |-> Look(AsBuiltEnv(caller, mods, script), v)]

Fragile(v) == \E i \in DOMAIN v : v[i] \in {DQ, SQ, BS}

(* ------------------------------ theorems -------------------------------- *)
SpecTheorems(caller, mods, script, Obs) ==
  LET s     == Session(mods, script)
      child == ChildEnv(caller, mods, script)
  IN
  \* untouched variables pass through, nothing else appears
  /\ \A v \in DOMAIN caller \ Touched(s) : v \in DOMAIN child /\ child[v] = caller[v]
  /\ DOMAIN child \subseteq DOMAIN caller \cup Touched(s)
  /\ DOMAIN child \cap Open(s) = {}
  /\ Decided(s) \subseteq DOMAIN child
  \* the judged projections partition the observed variables together with the open ones
  /\ DOMAIN PassThrough(caller, mods, script, Obs) \cup DOMAIN SetByModules(caller, mods, script, Obs)
       \cup (Obs \cap Open(s)) = Obs
  \* loading nothing but recording the modules changes nothing else
  /\ script = <<>> => DropVar(child, "LOADEDMODULES") = DropVar(caller, "LOADEDMODULES")
  \* the as-built references deviate exactly where predicted
  /\ (PassThroughAsBuilt(caller, mods, script, Obs) = PassThrough(caller, mods, script, Obs))
       <=> (\A v \in Obs \ Touched(s) : v \notin DOMAIN caller)
  /\ (\A v \in Obs \cap Decided(s) : ~Fragile(child[v]))
       <=> SetByModulesAsBuilt(caller, mods, script, Obs) = SetByModules(caller, mods, script, Obs)
  /\ DOMAIN AsBuiltEnv(caller, mods, script) = Touched(s)
=============================================================================
