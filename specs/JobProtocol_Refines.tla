------------------------ MODULE JobProtocol_Refines ------------------------
(* Refinement link between the code-bound protocol model and the proved core: *)
(* without faults, reruns and leftovers (MC_Refines.cfg) every behaviour of   *)
(* JobProtocol is - under the mapping below - a behaviour of LockCore, whose  *)
(* safety properties are PROVED for any number of processes (TLAPS).  TLC     *)
(* checks the implication for 3 processes.  The finer steps of JobProtocol    *)
(* (info file, directory, hooks, audit, cwd) are stuttering steps of the core.*)
EXTENDS MC_JobProtocol

BeforeBody == {"checked_miss", "info_written", "dir_cleared", "dir_made", "job_saved", "chdir",
               "pre_run_task", "audit_started"}
InSave     == {"body_start", "body_end", "outputs_collected", "post_run_task", "audit_finalized",
               "result_write_begin"}
AfterSave  == {"hit", "result_saved", "info_unlinked", "cwd_restored"}
AfterRel   == {"released", "post_run", "returning"}

CorePc(p) == IF pc[p] = "locked" THEN "check"
             ELSE IF pc[p] \in BeforeBody THEN "body"
             ELSE IF pc[p] \in InSave THEN "save"
             ELSE IF pc[p] \in AfterSave THEN "rel"
             ELSE IF pc[p] \in AfterRel \/ (pc[p] = "idle" /\ subs[p] > 0) THEN "done"
             ELSE "start"                                   \* idle before the submission, pre_run
CoreRes == CASE dir["root"].res = "ok"    -> "complete"
             [] dir["root"].res = "empty" -> "partial"      \* the result file is open for writing
             [] OTHER                     -> "none"
CoreGot(p) == IF pc[p] \in AfterSave \cup AfterRel \/ (pc[p] = "idle" /\ subs[p] > 0) THEN "complete" ELSE "none"

Core == INSTANCE LockCore WITH
          Proc <- Procs, None <- "free",
          pc   <- [p \in Procs |-> CorePc(p)],
          lock <- lock,
          res  <- CoreRes,
          ran  <- bodyStarts,
          got  <- [p \in Procs |-> CoreGot(p)]
RefinesCore == Core!Spec
CoreSafety  == Core!Safety
=============================================================================
