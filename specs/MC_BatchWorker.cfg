\* M1 design check (thorough): every response sequence of length <= 6, with and without --no-requeue
SPECIFICATION Spec
CONSTANTS
  Kinds = {"slurm", "sge"}
  Modes = {"intended"}
  MaxPolls = 6
  ExhLen = 6
  SampleMod = 1
  Seed = 0
  OptPlan = "nr"
INVARIANT Inv
CHECK_DEADLOCK FALSE
