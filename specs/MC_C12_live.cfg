SPECIFICATION FairSpec
CONSTANTS
  Procs = {p1,p2}
  ROSeq <- NoRO
  MaxSubs = 1
  RerunAllowed <- OnlyFalse
  BodyOutcomes <- OkOnly
  CrashBudget = 1
  RaiseBudget = 0
  LeftoverRoot <- Leftovers
  LeftoverRO <- OnlyAbsent
  FirstExistingDirDecides = FALSE
  TryStartsLate = FALSE
PROPERTY EverybodyReturns
CHECK_DEADLOCK FALSE
