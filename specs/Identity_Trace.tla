--------------------------- MODULE Identity_Trace ---------------------------
(* Mode M4: batched, monitor-style validation of recorded observations of   *)
(* the real pydra against the relational spec Identity.                     *)
(*                                                                           *)
(* TRACE_FILE is ndjson, one trace per line: {"ev": [event, ...]}.  Every    *)
(* trace starts from the empty relation / empty cache root.  Events:         *)
(*  {"a":"Observe","term":T,"hassrc":b,"src":T,"cfg":{..},"digest":"hex"}   *)
(*  {"a":"Submit","kk":"aspect","key":{aspect record},                       *)
(*               "hit":b,"out":label,"fresh":label}                          *)
(*  {"a":"Submit","kk":"term","term":T,"hit":b,"out":label,"fresh":label}    *)
(* The canonical keys are computed here (Identity!CanonS) from the           *)
(* serialised terms.  A step the ideal relation does not admit is reported   *)
(* as a JSON line naming the invariant, the two observations involved, what  *)
(* the ideal spec expects, what was observed and what the as-built relation  *)
(* (all switches on) PREDICTS; the driver turns it into a verdict.           *)
(* Verdicts are total: the monitor never deadlocks on an unexplained event,  *)
(* it records it and continues (first observation binds).                    *)
EXTENDS Identity, Json, IOUtils

AllTraces == ndJsonDeserialize(IOEnv.TRACE_FILE)

VARIABLES tid, l, idOfAB, keyOfAB, cacheAB, nrep
tvars == <<ivars, tid, l, idOfAB, keyOfAB, cacheAB, nrep>>
View  == <<tid, l>>        \* one linear pass per trace: the position identifies the state

Ev == AllTraces[tid].ev

TInit == /\ IInit
         /\ idOfAB = Empty /\ keyOfAB = Empty /\ cacheAB = Empty
         /\ tid \in 1..Len(AllTraces)
         /\ l = 1 /\ nrep = 0

CfgFields(c) == DOMAIN c
OnlyCtxDiffers(c1, c2) == \A f \in DOMAIN c1 \ {"ctx"} : c1[f] = c2[f]

TermOf(i) == Ev[i].term
Blame(i, j, observedSame) ==      \* single switches that predict the observed (in)equality
  { s \in Switches : (CanonS(TermOf(i), {s}) = CanonS(TermOf(j), {s})) = observedSame }

Report(r) == PrintT(ToJson(r))

ObserveStep(e) ==
  LET key == Canon(e.term)
      kab == CanonS(e.term, Switches)
      d   == e.digest
      info == [l |-> l, kab |-> kab]
      detOK == DetOK(idOf, key, d)
      injOK == InjOK(keyOf, key, d)
      srcOK == ~e.hassrc \/ Canon(e.src) = key
  IN
  /\ idOf'    = Bind(idOf, key, [d |-> d] @@ info)
  /\ keyOf'   = Bind(keyOf, d, [key |-> key] @@ info)
  /\ idOfAB'  = Bind(idOfAB, kab, [d |-> d, l |-> l])
  /\ keyOfAB' = Bind(keyOfAB, d, [key |-> kab, l |-> l])
  /\ UNCHANGED <<cache, cacheAB>>
  /\ nrep' = nrep + (IF detOK THEN 0 ELSE 1) + (IF injOK THEN 0 ELSE 1) + (IF srcOK THEN 0 ELSE 1)
  /\ IF srcOK THEN TRUE ELSE Report([tid |-> tid, l |-> l, with |-> l, inv |-> "Binding",
                      ideal_same |-> TRUE, observed_same |-> FALSE, asbuilt_same |-> TRUE, blame |-> {}])
  /\ IF detOK THEN TRUE ELSE LET b == idOf[key].l IN
              Report([tid |-> tid, l |-> l, with |-> b,
                      inv |-> IF OnlyCtxDiffers(e.cfg, Ev[b].cfg) /\ e.cfg.ctx # Ev[b].cfg.ctx
                              THEN "ContextFree" ELSE "Deterministic",
                      ideal_same |-> TRUE, observed_same |-> FALSE,
                      asbuilt_same |-> (idOf[key].kab = kab),
                      blame |-> Blame(l, b, FALSE)])
  /\ IF injOK THEN TRUE ELSE LET b == keyOf[d].l IN
              Report([tid |-> tid, l |-> l, with |-> b, inv |-> "Injective",
                      ideal_same |-> FALSE, observed_same |-> TRUE,
                      asbuilt_same |-> (keyOf[d].kab = kab),
                      blame |-> Blame(l, b, TRUE)])

SubKey(e, S) == IF e.kk = "aspect" THEN KeyS(e.key, S) ELSE CanonS(e.term, S)

SubmitStep(e) ==
  LET key  == SubKey(e, {})
      kab  == SubKey(e, Switches)
      present == key \in DOMAIN cache
      hitOK   == e.hit => present                                 \* C06: no hit for a key never submitted
      retOK   == e.out = e.fresh                                  \* C06: HitReturnsFresh
      foundOK == FoundByNext(cache, key, e.hit)                   \* C07: found by the next session
      abHit   == kab \in DOMAIN cacheAB
      abOut   == IF abHit THEN cacheAB[kab].out ELSE e.fresh
      blame   == IF hitOK /\ retOK
                 THEN \* missed although present: switches under which the earlier submission's key differs
                      { s \in Switches : present /\ SubKey(Ev[cache[key].l], {s}) # SubKey(e, {s}) }
                 ELSE \* wrong hit: switches under which another submitted key coincides with this one
                      { s \in Switches : \E k2 \in DOMAIN cache :
                           k2 # key /\ SubKey(Ev[cache[k2].l], {s}) = SubKey(e, {s}) }
  IN
  /\ cache'   = Bind(cache, key, [out |-> e.fresh, l |-> l])
  /\ cacheAB' = Bind(cacheAB, kab, [out |-> e.fresh, l |-> l])
  /\ UNCHANGED <<idOf, keyOf, idOfAB, keyOfAB>>
  /\ nrep' = nrep + (IF hitOK /\ retOK /\ foundOK THEN 0 ELSE 1)
  /\ IF hitOK /\ retOK /\ foundOK THEN TRUE ELSE
       Report([tid |-> tid, l |-> l,
               with |-> IF abHit THEN cacheAB[kab].l ELSE l,
               inv |-> IF ~hitOK THEN "HitOnlyAfterEqualKey"
                       ELSE IF ~retOK THEN "HitReturnsFresh" ELSE "FoundByNext",
               expected |-> [hit |-> present, out |-> e.fresh],
               observed |-> [hit |-> e.hit, out |-> e.out],
               asbuilt  |-> [hit |-> abHit, out |-> abOut],
               blame |-> blame])

TNext == /\ l <= Len(Ev)
         /\ LET e == Ev[l] IN
              CASE e.a = "Observe" -> ObserveStep(e)
                [] e.a = "Submit"  -> SubmitStep(e)
                [] OTHER -> Assert(FALSE, <<"unknown event", e>>)
         /\ l' = l + 1
         /\ tid' = tid

TSpec == TInit /\ [][TNext]_tvars

(* one summary line per trace when its last event has been consumed *)
Done == (l = Len(Ev) + 1) =>
          PrintT(ToJson([tid |-> tid, done |-> TRUE, events |-> Len(Ev), reports |-> nrep,
                         keys |-> Cardinality(DOMAIN idOf), digests |-> Cardinality(DOMAIN keyOf),
                         cached |-> Cardinality(DOMAIN cache)]))
=============================================================================
