SPECIFICATION Spec
CONSTANTS
  Kinds = {"list", "dict", "set", "object", "array", "array-shape", "file-any", "file-copy", "tuple-list", "tuple-dict", "tuple-array", "dict-list"}
  Workers = {"debug", "cf"}
INVARIANT MutationReported
INVARIANT NoFalseReport
INVARIANT StoredUnderOriginalId
INVARIANT CopyLeavesOriginal
INVARIANT Emit
CHECK_DEADLOCK FALSE
