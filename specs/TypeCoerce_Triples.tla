------------------------ MODULE TypeCoerce_Triples ------------------------
(* C21 case generator (mode M2).  The statically accepted (S, T) pairs are *)
(* an observation of the real code (TypeParser(T).check_type(S) without    *)
(* super-to-sub-class casting), read from IOEnv.PAIRS_FILE as indices into *)
(* the canonical type enumeration of TypeCoerce_Gen.  One initial state    *)
(* per triple (S, T, v \in Inhabitants(S)); printed with what the spec     *)
(* says about it: judged or set aside, ideal and as-built expectation.     *)
EXTENDS TypeCoerce, Json, IOUtils
CONSTANTS A, C, C2, Shard, NShards

(* the canonical enumeration is computed once (TLC re-evaluates definitions that involve  *)
(* RECURSIVE operators at every use) and kept in a TLC register                          *)
ASSUME TLCSet(1, SetToSeq(TypesUpTo(2, A, C, C2)))
TypeSeq == TLCGet(1)
Pairs   == ndJsonDeserialize(IOEnv.PAIRS_FILE)     \* [s |-> i, t |-> j]

VARIABLES p, k
vars == <<p, k>>
Init == /\ p \in { q \in 1..Len(Pairs) : q % NShards = Shard }
        /\ k \in 1..Len(InhSeq(TypeSeq[Pairs[p].s]))
Next == FALSE /\ UNCHANGED vars

src == TypeSeq[Pairs[p].s]
tgt == TypeSeq[Pairs[p].t]
v   == InhSeq(src)[k]
Case == [ s |-> Pairs[p].s, t |-> Pairs[p].t, k |-> k,
          sk |-> src.k, tk |-> tgt.k,
          judged  |-> Judged(v, tgt),
          arity   |-> Aside("arity", v, tgt),
          fs      |-> FsAside(v, tgt),
          ideal   |-> RuntimeIdeal(v, tgt),
          asbuilt |-> RuntimeAsBuilt(v, tgt),
          cls     |-> C21Class(v, tgt) ]
Emit == PrintT(ToJson(Case))
Theorems == /\ Conforms(v, src)
            /\ (src = tgt => Judged(v, tgt))
=============================================================================
