SPECIFICATION Spec
CONSTANTS
  Graphs <- Small
  Ks <- KNone
  FailChoices = "any"
  SliceIgnoresRunning = FALSE
  RunningLoopRaises = FALSE
CHECK_DEADLOCK FALSE
INVARIANT IndependentJobsRun
INVARIANT NoPendingAtEnd
INVARIANT DependentsNeverRun
INVARIANT ErrorNamesEveryFailedJob
INVARIANT FailureIsReported
INVARIANT NeverCrashes
INVARIANT ErrorOnlyIfFailure
INVARIANT StartAfterPredsSucceeded
