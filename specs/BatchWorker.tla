------------------------------ MODULE BatchWorker ------------------------------
(* C28  Batch-scheduler workers (SLURM, SGE) follow the scheduler's verdict.       *)
(*                                                                                  *)
(* A worker submits one job to a batch scheduler, then polls: it asks the queue     *)
(* (squeue / qstat); when the job has left the queue it consults the accounting     *)
(* (sacct / qacct); on an interruption (cancellation, time-out, pre-emption,        *)
(* eviction) it requeues / resubmits the job and keeps polling; otherwise it        *)
(* reports a verdict.  The scheduler is adversarial: its whole response sequence    *)
(* (`script`: one response per poll round, `sub`: the answer to the submission) is  *)
(* chosen arbitrarily in Init, so TLC explores every response sequence up to the    *)
(* bound.  Written from the property statement; where the statement is silent the   *)
(* worker's step is left open (two enabled alternatives).                           *)
(*                                                                                  *)
(* Modes: "intended" is the reference and satisfies every invariant.  "asbuilt"     *)
(* adds the two named deviations of the current code (DESIGN section 8):            *)
(*   C28-slurm-user-error-option : SLURM, user gave -e/--error: the worker crashes  *)
(*                                 right after sbatch accepted the job;             *)
(*   C28-sge-cannot-submit       : SGE: the worker crashes before calling qsub.     *)
EXTENDS Naturals, Sequences, FiniteSets, TLC

CONSTANTS Kinds,      \* subset of {"slurm", "sge"}
          Modes,      \* subset of {"intended", "asbuilt"}
          MaxPolls,   \* longest response sequence (poll rounds)
          ExhLen,     \* scripts up to this length are all enumerated ...
          SampleMod,  \* ... longer ones iff (Hash + Seed) % ModFor(length) = 0
          Seed,
          OptPlan     \* "all" | "few" | "nr" | "one" : which user option strings;
                      \* "mix" = the few with the selected scripts, all others with one-response scripts

VARIABLES kind, mode, opts, sub, script,   \* the case (fixed in Init)
          pc, i, ev, verdict, why, argv    \* the worker
caseVars == <<kind, mode, opts, sub, script>>
vars     == <<kind, mode, opts, sub, script, pc, i, ev, verdict, why, argv>>

(* ---------------------------- scheduler responses ---------------------------- *)
InQueue       == {"pending", "running"}
AcctLag(k)    == IF k = "slurm" THEN {"acctrunning"} ELSE {}  \* left the queue, accounting still says RUNNING
Interrupt(k)  == IF k = "slurm" THEN {"cancelled", "timeout", "preempted"} ELSE {"evicted"}
Missing       == {"acctmissing"}       \* left the queue, accounting knows nothing
Success       == {"completed"}         \* success and the result exists
NoResult      == {"noresult"}          \* scheduler says success, result file absent
Failure       == {"failed1", "failed137"}
Forcing       == Success \cup NoResult \cup Failure
NonForcing(k) == InQueue \cup AcctLag(k) \cup Interrupt(k) \cup Missing
Responses(k)  == Forcing \cup NonForcing(k)

RespOrder == <<"pending", "running", "acctrunning", "cancelled", "timeout", "preempted",
               "evicted", "acctmissing", "completed", "noresult", "failed1", "failed137">>
RespIdx == [r \in {RespOrder[n] : n \in 1..Len(RespOrder)} |-> CHOOSE n \in 1..Len(RespOrder) : RespOrder[n] = r]
RECURSIVE HashSeq(_)
HashSeq(s) == IF s = <<>> THEN 7 ELSE (HashSeq(Tail(s)) * 257 + RespIdx[Head(s)]) % 10007

(* every sequence of non-forcing responses closed by one forcing response *)
Scripts(k) == UNION { { s \o <<f>> : s \in [1..n -> NonForcing(k)], f \in Forcing }
                      : n \in 0..(MaxPolls - 1) }
(* SampleMod is the sampling modulus for the longest scripts; one poll round less means    *)
(* about seven times fewer scripts, so the modulus shrinks likewise (even spread of lengths) *)
ModFor(n) == LET m == SampleMod \div (7 ^ (MaxPolls - n)) IN IF m < 1 THEN 1 ELSE m
Selected(s) == Len(s) <= ExhLen \/ (HashSeq(s) + Seed) % ModFor(Len(s)) = 0
(* constant-level, so TLC evaluates it once per kind *)
SelScripts == [k \in Kinds |-> { s \in Scripts(k) : Selected(s) }]
OneScripts == { <<f>> : f \in Forcing }

(* ------------------------------ user options --------------------------------- *)
Keys     == <<"J", "o", "e">>          \* job-name, output, error
KeySet   == {"J", "o", "e"}
Forms(k) == IF k = "slurm" THEN {"none", "short", "long"} ELSE {"none", "short"}
NoOpts   == [J |-> "none", o |-> "none", e |-> "none", nr |-> FALSE]
AllOpts(k) == [J : Forms(k), o : Forms(k), e : Forms(k),
               nr : IF k = "slurm" THEN BOOLEAN ELSE {FALSE}]
FewOpts(k) ==
  IF k = "slurm"
  THEN { NoOpts,
         [NoOpts EXCEPT !.J = "short", !.o = "long"],
         [NoOpts EXCEPT !.e = "short"],
         [NoOpts EXCEPT !.J = "long", !.e = "long"],
         [NoOpts EXCEPT !.nr = TRUE],
         [NoOpts EXCEPT !.o = "short", !.nr = TRUE] }
  ELSE { NoOpts,
         [NoOpts EXCEPT !.J = "short", !.o = "short"],
         [NoOpts EXCEPT !.e = "short"] }
OptSet(k) == CASE OptPlan \in {"all", "mix"} -> AllOpts(k)
               [] OptPlan = "few" -> FewOpts(k)
               [] OptPlan = "nr"  -> { o \in AllOpts(k) : o.J = "none" /\ o.o = "none" /\ o.e = "none" }
               [] OTHER           -> {NoOpts}

(* The submitted argument vector, abstractly: the user's tokens in the user's     *)
(* order, then one default for every key the user did not give, then the script.   *)
Tok(key, src, form) == [k |-> key, src |-> src, form |-> form]
RECURSIVE UserToks(_, _)
UserToks(o, n) == IF n > Len(Keys) THEN <<>>
                  ELSE (IF o[Keys[n]] # "none" THEN <<Tok(Keys[n], "user", o[Keys[n]])>> ELSE <<>>)
                       \o UserToks(o, n + 1)
RECURSIVE DefaultToks(_, _)
DefaultToks(o, n) == IF n > Len(Keys) THEN <<>>
                     ELSE (IF o[Keys[n]] = "none" THEN <<Tok(Keys[n], "default", "long")>> ELSE <<>>)
                          \o DefaultToks(o, n + 1)
Argv(o) == UserToks(o, 1)
           \o (IF o.nr THEN <<Tok("nr", "user", "long")>> ELSE <<>>)
           \o DefaultToks(o, 1)
           \o <<Tok("script", "default", "-")>>
Occ(a, key) == SelectSeq(a, LAMBDA t : t.k = key)
(* projection compared with the real argv: per key the sources of its occurrences *)
Want(o) == [key \in KeySet |-> IF o[key] = "none" THEN <<"default">> ELSE <<"user">>]

(* ---------------------------------- machine ---------------------------------- *)
Init == /\ kind \in Kinds
        /\ mode \in Modes
        /\ opts \in OptSet(kind)
        /\ sub \in {"accepted", "submiterror"}
        /\ script \in IF sub # "accepted" THEN { <<>> }
                         ELSE IF OptPlan = "mix" /\ opts \notin FewOpts(kind) THEN OneScripts
                         ELSE SelScripts[kind]
        /\ pc = "start" /\ i = 0 /\ ev = <<>> /\ verdict = "none" /\ why = "" /\ argv = <<>>

Event(e, r) == [e |-> e, r |-> r]
Decide(v)   == pc' = "done" /\ verdict' = v

SgeCannotSubmit == mode = "asbuilt" /\ kind = "sge"
SlurmErrOptBug  == mode = "asbuilt" /\ kind = "slurm" /\ opts.e # "none"

Submit ==
  /\ pc = "start" /\ ~SgeCannotSubmit
  /\ argv' = Argv(opts)
  /\ ev' = Append(ev, Event("submit", "-"))
  /\ IF sub = "submiterror" THEN Decide("error") /\ why' = why
     ELSE IF SlurmErrOptBug THEN Decide("error") /\ why' = "AttributeError"
     ELSE pc' = "poll" /\ verdict' = verdict /\ why' = why
  /\ UNCHANGED <<caseVars, i>>

AsBuiltNoSubmit ==
  /\ pc = "start" /\ SgeCannotSubmit
  /\ Decide("error") /\ why' = "TypeError"
  /\ UNCHANGED <<caseVars, i, ev, argv>>

Consume(r) == /\ pc = "poll" /\ i < Len(script) /\ script[i + 1] = r
              /\ i' = i + 1
              /\ ev' = Append(ev, Event("poll", r))
              /\ UNCHANGED <<caseVars, why, argv>>

PollWait        == \E r \in InQueue \cup AcctLag(kind) : Consume(r) /\ UNCHANGED <<pc, verdict>>
PollComplete    == \E r \in Success : Consume(r) /\ Decide("complete")
PollFailed      == \E r \in Failure \cup NoResult : Consume(r) /\ Decide("error")
PollInterrupted == \E r \in Interrupt(kind) : Consume(r) /\ pc' = "requeue" /\ UNCHANGED verdict
(* the statement does not decide these two: both continuations are allowed *)
PollInterruptedNoRequeue == opts.nr /\ \E r \in Interrupt(kind) : Consume(r) /\ Decide("error")
PollMissingWait   == \E r \in Missing : Consume(r) /\ UNCHANGED <<pc, verdict>>
PollMissingRaise  == \E r \in Missing : Consume(r) /\ Decide("error")

Requeue == /\ pc = "requeue"
           /\ ev' = Append(ev, Event("requeue", "-"))
           /\ pc' = "poll"
           /\ UNCHANGED <<caseVars, i, verdict, why, argv>>

Next == \/ Submit \/ AsBuiltNoSubmit
        \/ PollWait \/ PollComplete \/ PollFailed \/ PollInterrupted
        \/ PollInterruptedNoRequeue \/ PollMissingWait \/ PollMissingRaise
        \/ Requeue
Spec == Init /\ [][Next]_vars /\ WF_vars(Next)

(* --------------------------------- properties --------------------------------- *)
TypeOK == /\ pc \in {"start", "poll", "requeue", "done"}
          /\ verdict \in {"none", "complete", "error"}
          /\ i \in 0..Len(script)
          /\ (verdict # "none") <=> (pc = "done")

Last == IF i = 0 THEN "-" ELSE script[i]

(* complete exactly when the scheduler reported success and the result exists *)
CompleteIffSuccess ==
  /\ verdict = "complete" => Last \in Success
  /\ Last \in Success => verdict = "complete"
(* failed when the scheduler reported failure (or success without a result), and *)
(* only for a reason the scheduler gave                                           *)
FailedIffFailure ==
  /\ Last \in Failure \cup NoResult => verdict = "error"
  /\ verdict = "error" =>
       \/ sub = "submiterror"
       \/ Last \in Failure \cup NoResult \cup Missing
       \/ opts.nr /\ Last \in Interrupt(kind)
(* interruption => requeue/resubmit and keep polling, never a verdict *)
InterruptRequeued ==
  \A n \in 1..Len(ev) :
    (ev[n].e = "poll" /\ ev[n].r \in Interrupt(kind) /\ ~opts.nr) =>
       IF n = Len(ev) THEN pc = "requeue" /\ verdict = "none"
       ELSE ev[n + 1].e = "requeue"
RequeueOnlyAfterInterrupt ==
  \A n \in 1..Len(ev) :
    ev[n].e = "requeue" => n > 1 /\ ev[n - 1].e = "poll" /\ ev[n - 1].r \in Interrupt(kind)
SubmitFirstOnce ==
  /\ \A n \in 1..Len(ev) : (ev[n].e = "submit") <=> (n = 1)
  /\ (pc # "start") => Len(ev) >= 1
(* user options honoured, nothing duplicated or dropped *)
OptionsHonoured ==
  argv # <<>> =>
    /\ \A key \in KeySet :
         /\ Len(Occ(argv, key)) = 1
         /\ Occ(argv, key)[1].src = (IF opts[key] = "none" THEN "default" ELSE "user")
         /\ <<Occ(argv, key)[1].src>> = Want(opts)[key]
    /\ argv[Len(argv)].k = "script"
    /\ Len(Occ(argv, "nr")) = (IF opts.nr THEN 1 ELSE 0)

Inv == /\ TypeOK /\ CompleteIffSuccess /\ FailedIffFailure /\ InterruptRequeued
       /\ RequeueOnlyAfterInterrupt /\ SubmitFirstOnce /\ OptionsHonoured

(* every submission reaches a verdict once the scheduler gives a forcing answer *)
Terminates == <>(pc = "done")
(* an interrupted job is polled again *)
KeepsPolling == [](pc = "requeue" => <>(pc = "poll"))

(* name of the known deviation that makes asbuilt differ from intended, if any *)
Finding == IF kind = "sge" THEN "C28-sge-cannot-submit"
           ELSE IF opts.e # "none" /\ sub = "accepted" THEN "C28-slurm-user-error-option"
           ELSE ""
=============================================================================
