INIT Init
NEXT Next
CONSTANTS
  Fields = {"a", "b", "c"}
  MinLen = 0
  MaxLen = 2
  Mode = "expand"
  MinFields = 1
  Shard = 0
  NShards = 1
INVARIANT Emit
INVARIANT Theorems
CHECK_DEADLOCK FALSE
