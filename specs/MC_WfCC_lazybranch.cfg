SPECIFICATION Spec
CONSTANTS
  Defs <- D1
  Vectors <- V3
  MaxOps = 3
  BranchInputsMayBeLazy = TRUE
INVARIANT Transparent
INVARIANT NoLeak

CHECK_DEADLOCK FALSE
