----------------------------- MODULE RulesEnum -----------------------------
(* The bounded space of task definitions with rules (kinds, requires, xor)   *)
(* shared by the C31 generator (Rules_Gen) and the C32 generator             *)
(* (DefRoundTrip_Gen).  Constant level only.                                 *)
EXTENDS Rules, SequencesExt
CONSTANTS N,            \* number of fields (names p, q, r, s, t in definition order)
          Kinds,        \* subset of {"b", "s", "i", "m"}
          MaxMand,      \* at most this many mandatory ("m") fields
          MaxReqSets,   \* field p carries <= this many alternative requirement sets ...
          MaxReqs,      \* ... of <= this many requirements each (with / without allowed values)
          Owners,       \* 2: field q additionally carries one requirement from a small menu
          MaxXor,       \* <= this many xor groups ...
          MinGroup, MaxGroup,   \* ... of this many members, each with / without None
          Shard, NShards

AllNames == <<"p", "q", "r", "s", "t">>
Names    == SubSeq(AllNames, 1, N)
NameSet  == Range(Names)

(* subsets with at most k (<= 2) elements, built without enumerating SUBSET S *)
UpTo(S, k) == {{}} \cup (IF k >= 1 THEN { {x} : x \in S } ELSE {})
                   \cup (IF k >= 2 THEN { {x, y} : x \in S, y \in S } ELSE {})

KindVecs == { kv \in [NameSet -> Kinds] : Cardinality({ f \in NameSet : kv[f] = "m" }) <= MaxMand }
KindList == SetToSeq(KindVecs)
MyKinds  == { KindList[i] : i \in { j \in 1..Len(KindList) : j % NShards = Shard } }

Stringy(kv, g) == kv[g] \in {"s", "m"}
Atoms(kv, f) == { Req(g) : g \in NameSet \ {f} }
           \cup { ReqIn(g, {"v"}) : g \in { h \in NameSet \ {f} : Stringy(kv, h) } }
ReqSets(kv, f) == UpTo(Atoms(kv, f), MaxReqs) \ {{}}
MainReq(kv)    == UpTo(ReqSets(kv, "p"), MaxReqSets)
SecondReq(kv)  ==
  IF Owners < 2 \/ N < 2 THEN {{}}
  ELSE {{}} \cup { {{Req("p")}} }
            \cup (IF N >= 3 THEN { {{Req("r")}} } ELSE {})
            \cup (IF Stringy(kv, "p") THEN { {{ReqIn("p", {"v"})}} } ELSE {})
ReqChoices(kv) == { [f \in NameSet |-> IF f = "p" THEN a ELSE IF f = "q" THEN b ELSE {}] :
                      a \in MainReq(kv), b \in SecondReq(kv) }

Groups == { [members |-> M, none |-> b] :
              M \in { X \in SUBSET NameSet : Cardinality(X) >= MinGroup /\ Cardinality(X) <= MaxGroup },
              b \in BOOLEAN }
XorChoices == UpTo(Groups, MaxXor)
=============================================================================
