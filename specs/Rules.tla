------------------------------- MODULE Rules -------------------------------
(***************************************************************************)
(* Reference predicate for pydra's declarative input rules (property C31): *)
(* `requires`, `xor` and mandatory fields.  Written from the property      *)
(* statement and the API documentation of `arg(requires=..)` /             *)
(* `define(xor=..)`:                                                       *)
(*   requires - "The input fields that are required to be provided, along  *)
(*               with the optional allowed values, that are required       *)
(*               together with the field": a collection of alternative     *)
(*               requirement sets (logical OR) of concurrent requirements  *)
(*               (logical AND), each a field name or (name, allowed        *)
(*               values).                                                  *)
(*   xor      - "Names of args that are mutually exclusive ... If this     *)
(*               list includes None, then none of the fields need to be    *)
(*               set."                                                     *)
(* Nothing here follows the implementation (no error lists, no field       *)
(* walk): the statement is transcribed with quantifiers.                   *)
(*                                                                         *)
(* A definition d is a record                                              *)
(*   fields : sequence of distinct field names (definition order)          *)
(*   kind   : [name -> "b" | "s" | "i" | "m"]                              *)
(*              b  bool flag, default False                                *)
(*              s  str | None, default None                                *)
(*              i  int | None, default None                                *)
(*              m  str without default (mandatory)                         *)
(*   req    : [name -> set of requirement sets]; a requirement set is a    *)
(*            non-empty set of requirements                                *)
(*            [name, restricted \in BOOLEAN, allowed \subseteq values]     *)
(*   xor    : set of groups [members \subseteq names, none \in BOOLEAN]    *)
(* An assignment a maps every field to a value label:                      *)
(*   "-" nothing / None,  "F" False,  "T" True,  "v" "w" strings,  "1" int *)
(* Falsy-but-not-None values (0, "", []) are deliberately NOT in the menu: *)
(* the statement does not say whether they count as "set".                 *)
(***************************************************************************)
EXTENDS Naturals, Sequences, FiniteSets, TLC

Range(s) == { s[i] : i \in DOMAIN s }

Menu(k) == CASE k = "b" -> {"F", "T"}
             [] k = "s" -> {"-", "v", "w"}
             [] k = "i" -> {"-", "1"}
             [] k = "m" -> {"-", "v", "w"}

Req(g)      == [name |-> g, restricted |-> FALSE, allowed |-> {}]
ReqIn(g, A) == [name |-> g, restricted |-> TRUE,  allowed |-> A]

Assignments(d) == { a \in [Range(d.fields) -> {"-", "F", "T", "v", "w", "1"}] :
                      \A f \in Range(d.fields) : a[f] \in Menu(d.kind[f]) }

(* a field is "set" when it holds a value: not None / not provided, and a   *)
(* flag that is off (False) is not set                                       *)
IsSet(a, f) == a[f] \notin {"-", "F"}

(* "... whose fields are all set (to an allowed value where given)" *)
Satisfied(a, r) == IsSet(a, r.name) /\ (r.restricted => a[r.name] \in r.allowed)

(* "every set field with requirements has at least one requirement set whose *)
(*  fields are all set"                                                       *)
RequiresHold(d, a) ==
  \A f \in Range(d.fields) :
     (IsSet(a, f) /\ d.req[f] # {}) => \E rs \in d.req[f] : \A r \in rs : Satisfied(a, r)

NSet(a, g) == Cardinality({ f \in g.members : IsSet(a, f) })

(* "at most one field of each exclusive group is set (exactly one unless the *)
(*  group allows none)"                                                       *)
XorHold(d, a) == \A g \in d.xor : NSet(a, g) <= 1 /\ (~g.none => NSet(a, g) = 1)

(* "with mandatory fields set" *)
MandatoryHold(d, a) == \A f \in Range(d.fields) : d.kind[f] = "m" => a[f] # "-"

Executable(d, a) == RequiresHold(d, a) /\ XorHold(d, a) /\ MandatoryHold(d, a)

(* which clauses of the statement an assignment breaks (for classification of *)
(* the enumerated cases; Executable <=> Broken = {})                           *)
Broken(d, a) ==
     (IF RequiresHold(d, a) THEN {} ELSE {"r"})
  \cup (IF \A g \in d.xor : NSet(a, g) <= 1 THEN {} ELSE {"x"})
  \cup (IF \A g \in d.xor : ~g.none => NSet(a, g) >= 1 THEN {} ELSE {"n"})
  \cup (IF MandatoryHold(d, a) THEN {} ELSE {"m"})

(* definitions with one clause family removed (used by the theorems) *)
NoRequires(d) == [d EXCEPT !.req = [f \in DOMAIN d.req |-> {}]]
NoXor(d)      == [d EXCEPT !.xor = {}]

WellFormedDef(d) ==
  /\ Cardinality(Range(d.fields)) = Len(d.fields)
  /\ DOMAIN d.kind = Range(d.fields) /\ DOMAIN d.req = Range(d.fields)
  /\ \A f \in Range(d.fields) : \A rs \in d.req[f] :
        rs # {} /\ \A r \in rs : r.name \in Range(d.fields)
  /\ \A g \in d.xor : g.members # {} /\ g.members \subseteq Range(d.fields)
=============================================================================
