------------------------- MODULE ContainerEnv_Gen -------------------------
(* Case generator (mode M2) for C27: one initial state per case            *)
(* (shell definition x directory layout x copy modes x order x root x      *)
(* runtime); the expected invocation is computed by ContainerEnv and       *)
(* printed as JSON.  Theorems evaluates the spec-level theorems on every    *)
(* enumerated case.                                                        *)
EXTENDS ContainerEnv, Json
CONSTANTS MaxFiles,      \* bound on the number of input files of a definition
          CopyModesF,    \* copy modes tried for the single-file field f
          Orders,        \* subset of {"fwd", "rev"}: command-line positions
          Runtimes,      \* subset of {"docker", "singularity"}
          RootIds,       \* subset of 1..3, see RootOf
          WithBlank,     \* include a directory whose name contains a blank
          ListWithF,     \* combine the list-of-files field with the single-file fields
          ListPlain,     \* list-of-files definitions only without output field, forward order
          Rich,          \* more variety for the second single-file field and the layouts
          Shard, NShards

VARIABLES ff, fg, fl, fo, ord, rt, rid
vars == <<ff, fg, fl, fo, ord, rt, rid>>

None == [kind |-> "none"]

Dirs == { << W("d1") >>, << W("d2") >>, << W("d1"), W("sub") >> }
        \cup (IF WithBlank THEN { << << "d", "1" >> >> } ELSE {})
        \cup (IF WithBlank /\ Rich THEN { << << "d", "1" >>, W("sub") >> } ELSE {})

RootOf(i) == CASE i = 1 -> [p |-> << W("mnt"), W("pydra") >>, slash |-> FALSE, dflt |-> TRUE]
               [] i = 2 -> [p |-> << W("r") >>, slash |-> FALSE, dflt |-> FALSE]
               [] i = 3 -> [p |-> << W("r") >>, slash |-> TRUE, dflt |-> FALSE]

Fld(name, kind, flag, rep, copy, files, word) ==
  [name |-> name, kind |-> kind, flag |-> flag, rep |-> rep, copy |-> copy,
   files |-> files, word |-> word, pos |-> 0]
File(d, n) == [dir |-> d, name |-> n]

(* a field whose files are staged does not depend on where they come from: one layout *)
FOpts == { Fld("f", "file", fl0, FALSE, "any", << File(d, "a.txt") >>, "")
             : fl0 \in {"", "-f"}, d \in Dirs }
         \cup { Fld("f", "file", fl0, FALSE, m, << File(<< W("d1") >>, "a.txt") >>, "")
             : fl0 \in {"", "-f"}, m \in CopyModesF \ {"any"} }
GFlags == {"-g"} \cup (IF Rich THEN {""} ELSE {})
GModes == {"copy", "link"}      \* both orders of a writable and a read-only input sharing the job directory
GOpts == { Fld("g", "file", fl0, FALSE, "any", << File(d, "b.txt") >>, "") : fl0 \in GFlags, d \in Dirs }
         \cup { Fld("g", "file", fl0, FALSE, m, << File(<< W("d2") >>, "b.txt") >>, "")
                : fl0 \in GFlags, m \in GModes }
L1Opts == { Fld("l", "list", "-l", r, "any", << File(d, "c.txt") >>, "") : r \in BOOLEAN, d \in Dirs }
          \cup { Fld("l", "list", "-l", r, "copy", << File(<< W("d2") >>, "c.txt") >>, "") : r \in BOOLEAN }
L2Opts == { Fld("l", "list", "-l", r, "any", << File(d, "c.txt"), File(e, "d.txt") >>, "")
              : r \in BOOLEAN, d \in Dirs, e \in Dirs }
          \cup { Fld("l", "list", "-l", r, "copy",
                     << File(<< W("d2") >>, "c.txt"), File(<< W("d1") >>, "d.txt") >>, "") : r \in BOOLEAN }
OutFld == Fld("o", "out", "-o", FALSE, "any", <<>>, "out.txt")
StrFld == Fld("s", "str", "-s", FALSE, "any", <<>>, "word")

NFiles(f) == IF f.kind = "none" THEN 0 ELSE Len(f.files)
LList == SetToSeq(L1Opts \cup L2Opts \cup {None})
FList == SetToSeq(FOpts \cup {None})
MyFLs == { x \in { << i, j >> : i \in 1..Len(FList), j \in 1..Len(LList) } : (x[1] + x[2]) % NShards = Shard }

Init == /\ \E x \in MyFLs : ff = FList[x[1]] /\ fl = LList[x[2]]
        /\ fg \in GOpts \cup {None}
        /\ NFiles(ff) + NFiles(fg) + NFiles(fl) \in 1..MaxFiles
        /\ fg.kind # "none" => ff.kind # "none"
        /\ ListWithF \/ fl.kind = "none" \/ ff.kind = "none"
        /\ fg.kind = "none" \/ fl.kind = "none"       \* at most two file-bearing fields
        /\ fo \in {OutFld, None}
        /\ ord \in Orders
        /\ (ListPlain /\ fl.kind # "none") => (fo = None /\ ord = "fwd")
        /\ rt \in Runtimes
        /\ rid \in RootIds
Next == FALSE /\ UNCHANGED vars

Present == SelectSeq(<< ff, fg, fl, fo, StrFld >>, LAMBDA f : f.kind # "none")
Fields  == [i \in 1..Len(Present) |->
              [Present[i] EXCEPT !.pos = IF ord = "fwd" THEN i ELSE Len(Present) + 1 - i]]

C == [ exe    |-> "tool",
       fields |-> Fields,
       rt     |-> rt,
       root   |-> RootOf(rid).p,
       xargs  |-> IF rid = 2 THEN << "--xa" >> ELSE <<>>,
       image  |-> "img",
       tag    |-> IF rt = "docker" THEN "1" ELSE "latest" ]

Case ==
  LET c  == C
      bb == BlankInBinds(c)
      ba == BlankInArgv(c)
      ip == IdealPrefix(c)
      ia == IdealContainerArgv(c)
      in == IdealNativeArgv(c)
  IN
  [ c        |-> c,
    rootstr  |-> Render(PathText(c.root)) \o (IF RootOf(rid).slash THEN "/" ELSE ""),
    rootdflt |-> RootOf(rid).dflt,
    bflags   |-> BindFlags(rt),
    wflags   |-> WorkDirFlags(rt),
    open     |-> { Render(PathText(d)) : d \in OpenDirs(c) },
    native   |-> in,
    prefix   |-> ip,
    argv     |-> ia,
    \* named as-built references (equal to the design when no blank occurs: theorem)
    haslist  |-> HasList(c),
    listerr  |-> ListCrashErr,
    bsplit   |-> IF bb \/ ba
                 THEN [prefix |-> BlankSplitPrefix(c), argv |-> BlankSplitContainerArgv(c),
                       native |-> BlankSplitNativeArgv(c)]
                 ELSE [same |-> TRUE],
    blankb   |-> bb,
    blanka   |-> ba ]
Emit == PrintT(ToJson(Case))

Theorems == LET c == C IN SpecTheorems(c)
=============================================================================
