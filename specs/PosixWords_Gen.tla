--------------------------- MODULE PosixWords_Gen ---------------------------
(* Drivers for the PosixWords machine.                                          *)
(*   Mode "strings"  : the machine is run step by step (real transitions) on     *)
(*                     every string over Alphabet of length MinL..MaxL; the      *)
(*                     result is printed at the terminal state of every          *)
(*                     behaviour for the cross-check against /bin/sh, and the    *)
(*                     invariants below are checked in every state.              *)
(*   Mode "validate" : (M4) reads recorded (command line, executed argv) pairs   *)
(*                     from the ndjson file $POSIX_RECS, one initial state per   *)
(*                     pair, and prints the verdict, the spaces-only as-built    *)
(*                     rendering of the argv and the character class.            *)
EXTENDS PosixWords, FiniteSetsExt, Json, IOUtils
CONSTANTS Mode, Alphabet, MinL, MaxL, Shard, NShards

RECURSIVE StringsOfLen(_)
StringsOfLen(n) == IF n = 0 THEN { << >> }
                   ELSE { << c >> \o t : c \in Alphabet, t \in StringsOfLen(n - 1) }
RECURSIVE SumSeq(_)
SumSeq(s) == IF s = << >> THEN 0 ELSE Head(s) + SumSeq(Tail(s))
MyStrings == { s \in UNION { StringsOfLen(n) : n \in MinL..MaxL } : (SumSeq(s) + Len(s)) % NShards = Shard }

Recs == IF Mode = "validate" THEN ndJsonDeserialize(IOEnv.POSIX_RECS) ELSE << >>
VARIABLE rec                       \* index of the recorded pair (0 in mode "strings")

Init ==
  IF Mode = "strings" THEN MInit(MyStrings) /\ rec = 0
  ELSE /\ rec \in { k \in 1..Len(Recs) : k % NShards = Shard }
       /\ inp = Recs[rec].cl
       /\ i = Len(inp) + 1
       /\ st = Run(St0, inp)
Next == IF Mode = "strings" THEN MNext /\ UNCHANGED rec ELSE FALSE /\ UNCHANGED << inp, i, st, rec >>

Out ==
  IF Mode = "strings" THEN [s |-> inp, status |-> Result.status, words |-> Result.words]
  ELSE LET av == Recs[rec].av IN
       [ k        |-> Recs[rec].k,
         status   |-> Result.status,
         words    |-> Result.words,
         faithful |-> Result.status = "ok" /\ Result.words = av,
         asbuilt  |-> RenderAsBuilt(av),
         cls      |-> ClassOfArgs(av) ]
Emit == Done => PrintT(ToJson(Out))

(* ---- invariants / theorems ---------------------------------------------------- *)
NoDelims(w) == \A k \in 1..Len(w) : ~Blank(w[k]) /\ w[k] \notin {SQ, DQ, BS}
TypeOK ==
  /\ i \in 1..(Len(inp) + 1)
  /\ st.m \in {"ws", "word", "sq", "dq", "bs", "dqbs"}
  /\ (st.m = "ws" => st.cur = << >> /\ ~st.has)
  /\ st = Run(St0, SubSeq(inp, 1, i - 1))              \* the machine computes the fold
Theorems ==
  /\ TypeOK
  /\ Done =>
       /\ Result = Split(inp)
          \* quoting every word is a faithful rendering (so the property is satisfiable) ...
       /\ (Mode = "strings") => Faithful(Quote(inp), << inp >>)
       /\ (Mode = "strings") =>
             Faithful(RenderQuoted(<< inp, Reverse(inp), << >> >>), << inp, Reverse(inp), << >> >>)
          \* ... without quote characters a literal line is split exactly at its blanks
       /\ (Mode = "strings" /\ Result.status \in {"ok", "unspec"}
             /\ \A k \in 1..Len(inp) : inp[k] \notin {SQ, DQ, BS}) =>
             /\ \A w \in { Result.words[k] : k \in 1..Len(Result.words) } : w # << >> /\ NoDelims(w)
             /\ SelectSeq(inp, LAMBDA c : ~Blank(c)) = SelectSeq(JoinSp(Result.words), LAMBDA c : ~Blank(c))
          \* (validate) the executed argv always has a faithful rendering: the reference one
       /\ (Mode = "validate") => Faithful(RenderQuoted(Recs[rec].av), Recs[rec].av)
          \* arguments the as-built rendering protects one by one are protected together
       /\ (Mode = "validate" /\ ClassOfArgs(Recs[rec].av) = "none") =>
             Faithful(RenderAsBuilt(Recs[rec].av), Recs[rec].av)
          \* the shlex.quote form of a word is a faithful rendering of it; the as-built rendering only
          \* fails on words it leaves bare (shell metacharacters)
       /\ (Mode = "strings") => Faithful(<< SQ >> \o EscShlex(inp) \o << SQ >>, << inp >>)
       /\ (Mode = "strings" /\ NeedsQuoteAsBuilt(inp)) => Faithful(OneAsBuilt(inp), << inp >>)
=============================================================================
