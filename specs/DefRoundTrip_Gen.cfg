INIT Init
NEXT Next
CONSTANTS
  Mode = "fields"
  Flavour = "shell"
  MaxFields = 2
  N = 1
  Kinds = {"b"}
  MaxMand = 0
  MaxReqSets = 0
  MaxReqs = 0
  Owners = 1
  MaxXor = 0
  MinGroup = 1
  MaxGroup = 1
  Shard = 0
  NShards = 1
INVARIANT Emit
INVARIANT Theorems
CHECK_DEADLOCK FALSE
